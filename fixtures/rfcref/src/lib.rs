//! Reference renderings of RFC 6330 pseudo-code, written from the RFC text.
//! Never executed: compiled by the rqfacts driver only, and compared (as loop/emission
//! summaries over terms) with the corresponding functions of the repository.
#![allow(clippy::all)]
#![allow(non_snake_case, unused)]

/// RFC 6330 section 5.3.5.3 — Enc[K', C, (d, a, b, d1, a1, b1)]: the sequence of
/// intermediate-symbol indices that are summed.
pub fn enc_ref(tuple: (u32, u32, u32, u32, u32, u32), W: u32, P: u32, P1: u32, mut emit: impl FnMut(usize)) {
    let (d, a, mut b, d1, a1, mut b1) = tuple;
    // result = C[b]
    emit(b as usize);
    // For j = 1, ..., d-1: b = (b + a) % W; result = result + C[b]
    for _j in 1..d {
        b = (b + a) % W;
        emit(b as usize);
    }
    // While (b1 >= P) do b1 = (b1 + a1) % P1
    while b1 >= P {
        b1 = (b1 + a1) % P1;
    }
    // result = result + C[W + b1]
    emit((W + b1) as usize);
    // For j = 1, ..., d1-1: b1 = (b1 + a1) % P1; While (b1 >= P) do b1 = (b1+a1) % P1; result = result + C[W + b1]
    for _j in 1..d1 {
        b1 = (b1 + a1) % P1;
        while b1 >= P {
            b1 = (b1 + a1) % P1;
        }
        emit((W + b1) as usize);
    }
}

/// RFC 6330 section 4.4.1.2 — Partition[I, J] = (IL, IS, JL, JS)
pub fn partition_ref(I: u32, J: u32) -> (u32, u32, u32, u32) {
    let IL = I.div_ceil(J);
    let IS = I / J;
    let JL = I - IS * J;
    let JS = J - JL;
    (IL, IS, JL, JS)
}

/// RFC 6330 section 5.3.3.3 — G_LDPC,1, I_S and G_LDPC,2: the (row, column) positions that are set.
pub fn ldpc_ref(S: usize, B: usize, W: usize, P: usize, mut set: impl FnMut(usize, usize)) {
    // For i = 0, ..., B-1: a = 1 + floor(i/S); b = i % S; D[b] += C[i]; b = (b+a)%S; D[b] += C[i]; b = (b+a)%S; D[b] += C[i]
    for i in 0..B {
        let a = 1 + i / S;
        let b = i % S;
        set(b, i);
        let b = (b + a) % S;
        set(b, i);
        let b = (b + a) % S;
        set(b, i);
    }
    // identity I_S in columns B .. B+S-1
    for i in 0..S {
        set(i, i + B);
    }
    // For i = 0, ..., S-1: a = i % P; b = (i+1) % P; D[i] = D[i] + C[W+a] + C[W+b]
    for i in 0..S {
        set(i, (i % P) + W);
        set(i, ((i + 1) % P) + W);
    }
}

/// RFC 6330 section 5.3.3.3 — G_HDPC = MT * GAMMA, in the column recursion
///   G[:, K'+S-1] = (alpha^i)_i ;  G[:, j] = alpha * G[:, j+1] + MT[:, j]   (j = K'+S-2 .. 0)
/// where MT[i][j] = 1 iff i = Rand[j+1, 6, H] or i = (Rand[j+1, 6, H] + Rand[j+1, 7, H-1] + 1) % H,
/// followed by the identity I_H in columns K'+S .. K'+S+H-1.
/// `rand`, `alpha_pow`, `mul_alpha`, `store`, `xor_one`, `set` are abstract sinks/sources.
pub fn hdpc_ref(
    Kprime: usize,
    S: usize,
    H: usize,
    rand: impl Fn(u32, u32, u32) -> u32,
    alpha_pow: impl Fn(usize) -> u8,
    mul_alpha: impl Fn(u8) -> u8,
    mut g: Vec<Vec<u8>>,
    mut set: impl FnMut(usize, usize, u8),
    mut set_one: impl FnMut(usize, usize),
) {
    for i in 0..H {
        g[i][Kprime + S - 1] = alpha_pow(i);
    }
    for j in (0..=(Kprime + S - 2)).rev() {
        for i in 0..H {
            g[i][j] = mul_alpha(g[i][j + 1]);
        }
        let r6 = rand((j + 1) as u32, 6, H as u32) as usize;
        let r7 = rand((j + 1) as u32, 7, (H - 1) as u32) as usize;
        let i1 = r6;
        let i2 = (r6 + r7 + 1) % H;
        g[i1][j] ^= 1;
        g[i2][j] ^= 1;
    }
    for i in 0..H {
        for j in 0..(Kprime + S) {
            if g[i][j] != 0 {
                set(i, j, g[i][j]);
            }
        }
    }
    for i in 0..H {
        set_one(i, i + (Kprime + S));
    }
}

/// RFC 6330 section 4.4.1.2 — the object is cut into Z = ZL + ZS blocks: the first ZL blocks have KL symbols,
/// the remaining ZS blocks have KS symbols, T bytes per symbol, contiguous from offset 0.
pub fn block_offsets_ref(KL: u32, KS: u32, ZL: u32, ZS: u32, T: u16, mut emit: impl FnMut(usize, usize)) {
    let mut pos = 0;
    for _ in 0..ZL {
        let size = KL as usize * T as usize;
        emit(pos, pos + size);
        pos += size;
    }
    for _ in ZL..(ZL + ZS) {
        let size = KS as usize * T as usize;
        emit(pos, pos + size);
        pos += size;
    }
}

/// RFC 6330 section 4.4.1.2 — sub-blocking, encoder side: a block is N = NL + NS sub-blocks; the first NL have
/// sub-symbols of TL*Al bytes, the other NS of TS*Al bytes; sub-block s stores its K sub-symbols contiguously and the
/// sub-blocks follow each other; symbol m is the concatenation over s of sub-symbol m of sub-block s.
pub fn interleave_ref(TL: u32, TS: u32, NL: u32, NS: u32, Al: u8, symbols: &mut [Vec<u8>], data: &[u8]) {
    let mut offset = 0;
    for s in 0..(NL + NS) {
        let bytes = if s < NL { TL as usize * Al as usize } else { TS as usize * Al as usize };
        for symbol in &mut *symbols {
            symbol.extend_from_slice(&data[offset..offset + bytes]);
            offset += bytes;
        }
    }
}

/// decoder side: sub-symbol s of symbol i goes to (start of sub-block s) + bytes_s * i, start of sub-block s being the
/// sum over earlier sub-blocks of bytes * K.
pub fn deinterleave_ref(TL: u32, TS: u32, NL: u32, NS: u32, Al: u8, K: u32, result: &mut [u8], symbol: &[u8], i: usize) {
    let mut symbol_offset = 0;
    let mut sub_block_offset = 0;
    for s in 0..(NL + NS) {
        let bytes = if s < NL { TL as usize * Al as usize } else { TS as usize * Al as usize };
        let start = sub_block_offset + bytes * i;
        result[start..start + bytes].copy_from_slice(&symbol[symbol_offset..symbol_offset + bytes]);
        symbol_offset += bytes;
        sub_block_offset += bytes * K as usize;
    }
}
