//! Reference renderings of RFC 6330 pseudo-code, written from the RFC text.
//! Never executed: compiled by the rqfacts driver only, and compared (as loop/emission
//! summaries over terms) with the corresponding functions of the repository.
#![allow(clippy::all)]
#![allow(non_snake_case, unused)]

/// RFC 6330 section 5.3.5.3 — Enc[K', C, (d, a, b, d1, a1, b1)]: the sequence of
/// intermediate-symbol indices that are summed.
pub fn enc_ref(tuple: (u32, u32, u32, u32, u32, u32), W: u32, P: u32, P1: u32, mut emit: impl FnMut(usize)) {
    let (d, a, mut b, d1, a1, mut b1) = tuple;
    // result = C[b]
    emit(b as usize);
    // For j = 1, ..., d-1: b = (b + a) % W; result = result + C[b]
    for _j in 1..d {
        b = (b + a) % W;
        emit(b as usize);
    }
    // While (b1 >= P) do b1 = (b1 + a1) % P1
    while b1 >= P {
        b1 = (b1 + a1) % P1;
    }
    // result = result + C[W + b1]
    emit((W + b1) as usize);
    // For j = 1, ..., d1-1: b1 = (b1 + a1) % P1; While (b1 >= P) do b1 = (b1+a1) % P1; result = result + C[W + b1]
    for _j in 1..d1 {
        b1 = (b1 + a1) % P1;
        while b1 >= P {
            b1 = (b1 + a1) % P1;
        }
        emit((W + b1) as usize);
    }
}

/// RFC 6330 section 4.4.1.2 — Partition[I, J] = (IL, IS, JL, JS)
pub fn partition_ref(I: u32, J: u32) -> (u32, u32, u32, u32) {
    let IL = I.div_ceil(J);
    let IS = I / J;
    let JL = I - IS * J;
    let JS = J - JL;
    (IL, IS, JL, JS)
}

/// RFC 6330 section 5.3.3.3 — G_LDPC,1, I_S and G_LDPC,2: the (row, column) positions that are set.
pub fn ldpc_ref(S: usize, B: usize, W: usize, P: usize, mut set: impl FnMut(usize, usize)) {
    // For i = 0, ..., B-1: a = 1 + floor(i/S); b = i % S; D[b] += C[i]; b = (b+a)%S; D[b] += C[i]; b = (b+a)%S; D[b] += C[i]
    for i in 0..B {
        let a = 1 + i / S;
        let b = i % S;
        set(b, i);
        let b = (b + a) % S;
        set(b, i);
        let b = (b + a) % S;
        set(b, i);
    }
    // identity I_S in columns B .. B+S-1
    for i in 0..S {
        set(i, i + B);
    }
    // For i = 0, ..., S-1: a = i % P; b = (i+1) % P; D[i] = D[i] + C[W+a] + C[W+b]
    for i in 0..S {
        set(i, (i % P) + W);
        set(i, ((i + 1) % P) + W);
    }
}

/// RFC 6330 section 5.3.3.3 — G_HDPC = MT * GAMMA, in the column recursion
///   G[:, K'+S-1] = (alpha^i)_i ;  G[:, j] = alpha * G[:, j+1] + MT[:, j]   (j = K'+S-2 .. 0)
/// where MT[i][j] = 1 iff i = Rand[j+1, 6, H] or i = (Rand[j+1, 6, H] + Rand[j+1, 7, H-1] + 1) % H,
/// followed by the identity I_H in columns K'+S .. K'+S+H-1.
/// `rand`, `alpha_pow`, `mul_alpha`, `store`, `xor_one`, `set` are abstract sinks/sources.
pub fn hdpc_ref(
    Kprime: usize,
    S: usize,
    H: usize,
    rand: impl Fn(u32, u32, u32) -> u32,
    alpha_pow: impl Fn(usize) -> u8,
    mul_alpha: impl Fn(u8) -> u8,
    mut g: Vec<Vec<u8>>,
    mut set: impl FnMut(usize, usize, u8),
    mut set_one: impl FnMut(usize, usize),
) {
    for i in 0..H {
        g[i][Kprime + S - 1] = alpha_pow(i);
    }
    for j in (0..=(Kprime + S - 2)).rev() {
        for i in 0..H {
            g[i][j] = mul_alpha(g[i][j + 1]);
        }
        let r6 = rand((j + 1) as u32, 6, H as u32) as usize;
        let r7 = rand((j + 1) as u32, 7, (H - 1) as u32) as usize;
        let i1 = r6;
        let i2 = (r6 + r7 + 1) % H;
        g[i1][j] ^= 1;
        g[i2][j] ^= 1;
    }
    for i in 0..H {
        for j in 0..(Kprime + S) {
            if g[i][j] != 0 {
                set(i, j, g[i][j]);
            }
        }
    }
    for i in 0..H {
        set_one(i, i + (Kprime + S));
    }
}
