#!/usr/bin/env python3
"""Regenerates MANIFEST.json from the table below (kept in one place so it stays valid)."""
import json, os
HERE = os.path.dirname(os.path.abspath(__file__))

CLAIMED = {
    "C10": dict(
        cat="proof", ref="DESIGN.md §3 C10",
        text="Exhaustive static check of the compiler-evaluated GF(256) tables against the field definition "
             "(all 65536 products, all exponents, both nibble tables). Decides the table clauses for all operands.",
        note="Trusts rustc's const evaluator and the checker's carry-less multiply.",
        technique="static analysis: constant-table verification over rustc-evaluated consts (rustc_private driver)"),
}

CLAIMED["C15"] = dict(
    cat="proof", ref="DESIGN.md §3 C15",
    text="R1: all 477 rows of Table 2 and the P1 table checked exhaustively on the compiler-evaluated constants "
         "(K' increasing and ending at 56403, S and W prime, P1 = smallest prime >= P, B >= 1, P >= H >= 2, L < 65536). "
         "R2: the lookup functions match the 'first row with K' >= k' scan schema, which with R1 covers every K in 0..=56403, "
         "and the exhaustion lemma makes their unreachable!() dead. R3: abstract interpretation with symbolic intervals "
         "proves the tuple ranges for all (K', X) and discharges every overflow/bounds/division assert, explicit panic and "
         "narrowing cast in the tuple/Enc/ESI cone, separately for overflow-checked and optimised builds.",
    note="Assumes rustc's MIR for the installed nightly, the library models in sa/models.py, K <= 56403 as struct invariant of "
         "SourceBlockEncoder and K+s+n <= 2^24 (the property's own domain). Tuple == RFC Tuple value-for-value is C04's template rule.",
    technique="static analysis: constant-table verification + MIR scan-schema matching + abstract interpretation (symbolic intervals) over rustc MIR")

CLAIMED["C19"] = dict(
    cat="proof", ref="DESIGN.md §3 C19",
    text="R1: the constructor's acceptance predicate (path predicate of its normal return over normalised atomic conditions) is "
         "boolean-equivalent to the three documented limits for positive T, Z, Al. R2: abstract interpretation shows every cast and "
         "arithmetic step between the parameters and the compared value is lossless for all F (u64), T in 1..65535, Z in 1..255. "
         "R3: stored fields are the parameters, accessors return them unchanged, no &mut self method, private fields.",
    note="Trusts rustc MIR, the term normaliser (ceil-division idioms) and the interval transfer functions.",
    technique="static analysis: path-predicate extraction + term matching + abstract interpretation over rustc MIR")
CLAIMED["C14"] = dict(
    cat="other", ref="DESIGN.md §3 C14",
    text="Decides the formula and totality clauses, not the round trip: R1 matches the derivation against the RFC 6330 4.3 template "
         "(Al/SS choice, T, Kt, N_max, descending KL(n) scan with the <= test, Z = ceil(Kt/KL(N_max)), ascending inclusive N search). "
         "R2/R3: over the property's own domain every narrowing cast, overflow/division assert and panic in the cone is discharged; "
         "the only reachable refusal fires when KL(N_max) = 0. R5: the builder and with_defaults hand the caller's length, packet size and "
         "budget to the derivation unchanged (setters store their argument as given).",
    note="Domain assumptions (ceil(F/T) <= 56403*255, derived Z <= 255, budget admits K'=10) are stated in the evidence; "
         "'encoder and decoder round-trip the object' is not decided here.",
    technique="static analysis: term-template matching against RFC formulas + abstract interpretation with entry case split")

CLAIMED["C13"] = dict(
    cat="proof", ref="DESIGN.md §3 C13",
    text="Bit-provenance evaluation of all six (de)serialisers over their MIR terms: each output bit of serialize and each field bit "
         "of deserialize is exactly the bit the RFC 6330 layout prescribes, for every input; packet = 4 payload-id bytes then the "
         "symbol; ESI < 2^24 is enforced at every construction site. Round trips follow by composing the exact bit maps.",
    note="Layout tables are transcribed from RFC 6330 3.2/3.3.2/3.3.3 into sa/rules/c13.py; trusts rustc MIR and sa/bits.py.",
    technique="static analysis: bit-level provenance domain over MIR def-use terms")
CLAIMED["C04"] = dict(
    cat="other", ref="DESIGN.md §3 C04",
    text="Decides that every formula and constant shared by encoder and decoder is the RFC's (where round-trip tests are blind): "
         "Rand, Deg, Tuple templates; Enc index sequence of both siblings, LDPC rows of both generators and the HDPC recursion "
         "compared as loop/emission summaries with reference renderings of the RFC pseudo-code compiled by the same driver; "
         "ESI/ISI arithmetic on both sides; pinned fingerprints of V0..V3/Table 2/P1. Does not decide that C is the unique solution.",
    note="Reference renderings live in /verif/fixtures/rfcref (never executed). V0..V3/Table 2 fingerprints are a regression oracle "
         "taken from the pinned tree (no independent RFC copy in the sandbox).",
    technique="static analysis: term-template matching and loop-summary comparison against RFC reference code over rustc MIR")

CLAIMED["C12"] = dict(
    cat="proof", ref="DESIGN.md §3 C12",
    text="Every memory-touching operation in the crate's unsafe code (raw pointer add/deref, unaligned reads/writes, vector loads/stores, "
         "get_unchecked, from_raw_parts) is an obligation (object, byte offset, width) discharged by abstract interpretation with "
         "symbolic intervals over len = 64q + r for all 64 residues r; the slab's paired borrow is shown in-bounds and disjoint for "
         "dest<src and dest>src and refused for dest==src; the struct invariants and call-site guards the bounds rest on are checked "
         "structurally; the unsafe inventory is closed (a new unsafe site without obligations is reported).",
    note="Only the x86_64 instantiation is analysed (no other target std is installed: NEON / 32-bit x86 kernels are out of reach). "
         "Alignment/null checks and arithmetic overflow are not part of this property's obligations.",
    technique="static analysis: abstract interpretation (symbolic intervals, residue split) over rustc MIR + structural encapsulation rules")

CLAIMED["C11"] = dict(
    cat="other", ref="DESIGN.md §3 C11",
    text="Decides gating, coverage, dispatch and the data-flow shape of the bulk kernels: "
         "R1 every call of a #[target_feature] kernel or core::arch intrinsic happens where the features are available "
         "(own attributes or a dominating successful runtime detection, closed under rustc's implication table); "
         "R2 for all 64 residues of len mod 64 every kernel writes each byte of [0,len) exactly once with stride = access width "
         "and reads its second operand at the same positions; R3 the value stored by every vector loop, word loop and scalar tail matches the "
         "operation's template in a width-independent lane algebra (xor / nibble-table PSHUFB product with the right table for each nibble and "
         "the scalar's row / masked broadcast for the packed-bit kernels incl. their shuffle and bit-select constants); "
         "R4 every dispatcher falls back to a portable kernel and passes its own operands.",
    note="x86_64 instantiation only (NEON / 32-bit x86 cannot be type-checked here). The meaning of the ~15 intrinsics used is encoded in "
         "the templates (read from Intel's definitions), not re-derived; the tables are proved by C10-R1.",
    technique="static analysis: interprocedural feature-availability dataflow + abstract interpretation (exact affine offsets, residue split) over rustc MIR")

CLAIMED["C01"] = dict(
    cat="other", ref="DESIGN.md §3 C01",
    text="Decides structural necessary conditions of 'never anything but the original object', not the linear algebra: every Some(result) of "
         "decode/get_result is cut to transfer_length() and is the index-order concatenation of the per-block results, returned only when "
         "no block is missing; block decoders are created in block-number order with KL/KS sizes; the all-source fast path answers exactly "
         "when the counter equals K, without the solver, copying symbol i to position i; the solver front-ends answer Some iff the solver "
         "returned intermediate symbols and assemble position i from received-or-rebuilt symbol i.",
    note="That the solver's solution is the unique solution of the received system, and the byte values of rebuilt symbols, are not decided.",
    technique="static analysis: path-predicate (DNF) extraction, dominance / must-pass-through and loop-emission summaries over rustc MIR")
CLAIMED["C02"] = dict(
    cat="other", ref="DESIGN.md §3 C02",
    text="Decides the control-flow clause: the block decoder answers only at four sites (too few symbols, all-source, successful GF(2)-only "
         "attempt, full solve); a failed or skipped GF(2)-only attempt always continues to the full HDPC solve on the same K and ISI list with "
         "the same sparse/dense threshold test; 'not yet' is answered iff fewer than K distinct ESIs were received; and (intake rules, shared with C08) "
         "every packet the iterator yields reaches received_esi.insert before the next iteration - no guard drops a packet unrecorded.",
    note="Rank detection inside the solver (first/second phase) is run-time linear algebra and is not decided.",
    technique="static analysis: enumeration of return sites with their path predicates over rustc MIR")
CLAIMED["C08"] = dict(
    cat="other", ref="DESIGN.md §3 C08",
    text="Decides the structural clauses of order/duplication independence: every packet of a batch reaches received_esi.insert (no live path skips "
         "it) and the loop is left early only when all K source symbols are present; every mutation of decoder state in the accumulation loop is "
         "guarded by received_esi.insert(own ESI) == true and classified by that same ESI; the source counter is incremented exactly where a "
         "slot is filled and written nowhere else; per-block results are written only while None (memoisation is monotone) for the packet's own "
         "block number; decode and add_new_packet perform the same guarded update and decode and get_result build the result identically; "
         "Clone of both decoder types is derived; R6: after the intake loop no per-call variable is read, so the decision to answer depends on "
         "the accumulated state only.",
    note="Independence of the solver's success from row order is mathematics, not code shape, and is not decided.",
    technique="static analysis: control-dependence / guard rules and sibling-summary comparison over rustc MIR")

CLAIMED["C17"] = dict(
    cat="other", ref="DESIGN.md §3 C17",
    text="Lock discipline and the critical-section invariant keys(plans) == set(queue) and |plans| <= CAP, decided as shapes that hold on every "
         "path and therefore under every interleaving of critical sections: cache fields are touched only by functions holding the lock; "
         "no generation, solve or re-lock inside a section and the guard is released on every path; the inserting section re-checks "
         "get(&k) == None, evaluates plans.len() >= CAPACITY on every path, removes exactly the popped key, pushes k exactly once; "
         "keys and values are consistent (value cached under k is generate(k); the consumer asks for source_symbols.len(), range-checked).",
    note="That two plans generated for the same k are equal (transparency of the value) rests on plan generation being data independent (C09).",
    technique="static analysis: guard live-range (critical section) delimitation, call-graph reachability and path-predicate rules over rustc MIR")
CLAIMED["C18"] = dict(
    cat="other", ref="DESIGN.md §3 C18",
    text="Decides the addressing structure: a repair packet is a function of (block, start+i) only (one loop over 0..packets, no loop-carried "
         "state, ISI = start+i+K', ESI = K+start+i, fresh zeroed buffer, this block's W/J/P1 and intermediate symbols); source packet i carries "
         "(SBN, i, symbol i); the packet list is per block in order: source packets then repair_packets(0, n); plans carry only (ops, count) "
         "and a count mismatch is refused; Encoder::new regenerates its plan exactly when the count changes.",
    note="Equality of Enc values for equal arguments is then functional determinism of safe Rust code without interior state; byte values are not decided.",
    technique="static analysis: loop-emission summaries and term matching over rustc MIR")

CLAIMED["C05"] = dict(
    cat="other", ref="DESIGN.md §3 C05",
    text="Decides the arithmetic skeleton of the layout, not byte values: Partition equals the RFC's formula; calculate_block_offsets and "
         "Decoder::new give the first ZL blocks KL symbols and the following ZS blocks KS symbols contiguously; create_symbols and "
         "unpack_sub_blocks match reference renderings of the RFC's sub-block interleaving (roles of Partition[T/Al, N], running offsets, "
         "bytes_s * K stride), which are inverse to each other; zero padding is appended only at the tail of a block that passes the end "
         "of the data; block i gets SBN i; symbols are whole multiples of T.",
    note="Reference renderings in /verif/fixtures/rfcref are written from RFC 6330 4.4.1.2 and never executed.",
    technique="static analysis: loop-summary comparison against RFC reference code + term matching over rustc MIR")
CLAIMED["C07"] = dict(
    cat="other", ref="DESIGN.md §3 C07",
    text="Decides structural preconditions of configuration independence: every call or store compiled in only one of {debug, release} "
         "(found exactly, by source span, in std and no_std builds) is pure, confined to debug-only state, or one of four reviewed "
         "release/debug twins with identical row operands whose side conditions are checked (start column only reaches add_assign_rows, "
         "the operation is recorded unconditionally, A is dead after the fifth phase in release); planned, cached and direct (no_std) "
         "encoders use the one sparse-threshold constant; CPU paths are gated and dispatched as in C11; R5: every loop of the sparse back-end "
         "over its bit-packed dense tail visits exactly ceil(nd/64) words per row, for all 64 residues of nd = 64q + r; R6: the dense back-end's row addition hands over word ranges "
         "[row*rww+off, +len) with off <= start_col/64 and off+len = rww in both rows (argument terms decided on all residues mod 64).",
    note="Does not decide that dense and sparse solves agree (C16) nor that errata 11 is mathematically valid.",
    technique="static analysis: cross-configuration MIR diff by source span with an explicit exception table + dataflow side conditions")
CLAIMED["C09"] = dict(
    cat="other", ref="DESIGN.md §3 C09",
    text="Decides non-interference and position-wise application, the structural reason plans and decoding are independent of symbol "
         "contents and size: the solver touches the slab only through whole-symbol operations returning (), the symbol size it reads flows "
         "only into a replacement slab, it reads no slab field; plan replay maps each operation variant to the slab method with its own "
         "operands; slab methods address phys(i)*symbol_size with one stride and reach their kernel unconditionally; dispatchers never "
         "branch on buffer contents; Enc writes whole symbols (first copy, then xor).",
    note="Linearity itself is algebra over the kernels' element-wise semantics (C10, C11) and is not re-derived.",
    technique="static analysis: API-restriction (who-may-call) and information-flow rules over rustc MIR terms")

NOT_APPLICABLE = {
    "C03": "probability over random erasure patterns; no clause of it is visible in the shape of the code",
    "C06": "invertibility of 477 concrete matrices and plan-replay equality are run-time linear algebra; no sound structural proxy",
    "C16": "equivalence of two data-structure implementations under all operation histories; no sound structural necessary condition beyond what the tests already enforce",
}

PENDING = ["C01","C02","C04","C05","C07","C08","C09","C11","C12","C13","C14","C15","C17","C18","C19"]

def main():
    checks = []
    for pid, c in sorted(CLAIMED.items()):
        checks.append({
            "property_id": pid,
            "quick_cmd": "./check %s quick" % pid,
            "thorough_cmd": "./check %s thorough" % pid,
            "evidence_file": "/verif/evidence/%s.json" % pid,
            "replay_cmd_template": "./check %s --replay {path}" % pid,
            "engine": "rqfacts+sa",
            "level_claimed": {"category": c["cat"], "text": c["text"], "design_ref": c["ref"]},
            "level_note": c["note"],
            "technique": c["technique"],
        })
    na = [{"property_id": p, "reason": r} for p, r in sorted(NOT_APPLICABLE.items())]
    for p in PENDING:
        if p not in CLAIMED:
            na.append({"property_id": p, "reason": "not claimed yet: the static rule set for this property is not built (see DESIGN.md §9 build order)"})
    m = {
        "version": 1,
        "setup_cmd": "cd rqfacts && CARGO_NET_OFFLINE=true cargo build --release --offline",
        "hooks": {
            "guard": "raptorq_verif",
            "enable": "none needed: the rustc_private driver reads private items, cfg'd code and constants directly; no hook code exists in /repo",
            "baseline_off_cmd": "cd /repo && cargo test --workspace --no-fail-fast --offline",
            "source_commits": [],   # no hook commits exist; the five "fix:" commits of /repo are listed in known_findings.json
            "add_only": True,
        },
        "engines": [
            {"name": "rqfacts", "path": "/verif/rqfacts", "serves_properties": sorted(CLAIMED),
             "kind_free_text": "rustc_private driver (nightly) exporting MIR, resolved callees, target features, evaluated constants, ADTs and unsafe-block spans per cargo configuration"},
            {"name": "sa", "path": "/verif/sa", "serves_properties": sorted(CLAIMED),
             "kind_free_text": "Python static-analysis library over the fact files: CFG/dominators, call graph, abstract interpretation, term matching, table verification"},
        ],
        "checks": checks,
        "not_applicable": sorted(na, key=lambda x: x["property_id"]),
        "notes": "Static analysis only: no check executes repository code. Facts are rebuilt from /repo's working tree on every run (cache keyed by a hash of the sources).",
    }
    with open(os.path.join(HERE, "MANIFEST.json"), "w") as fh:
        json.dump(m, fh, indent=1)
    print("MANIFEST.json: %d checks, %d not_applicable" % (len(checks), len(na)))

if __name__ == "__main__":
    main()
