//! rqfacts — rustc_private driver that exports facts (MIR, constants, target
//! features, ADTs, unsafe-block spans) of selected crates as JSON.
//!
//! Used as RUSTC_WORKSPACE_WRAPPER: argv = [rqfacts, <rustc>, args...].
//! Env: RQFACTS_CRATES=comma separated crate names to dump (default "raptorq")
//!      RQFACTS_OUT=directory where <crate>.json is written (one write).
#![feature(rustc_private)]
#![allow(clippy::all)]

extern crate rustc_abi;
extern crate rustc_data_structures;
extern crate rustc_driver;
extern crate rustc_hir;
extern crate rustc_index;
extern crate rustc_interface;
extern crate rustc_middle;
extern crate rustc_session;
extern crate rustc_span;
extern crate rustc_target;

mod json;
use json::J;

use rustc_driver::{Callbacks, Compilation};
use rustc_hir::def::DefKind;
use rustc_hir::def_id::{DefId, LocalDefId};
use rustc_interface::interface::Compiler;
use rustc_middle::mir::{self, *};
use rustc_middle::ty::{self, Instance, Ty, TyCtxt, TypingEnv};
use rustc_span::Span;
use rustc_middle::ty::print::PrintTraitRefExt;

struct NoCb;
impl Callbacks for NoCb {}

struct Dump {
    out_dir: String,
    crates: Vec<String>,
}

impl Callbacks for Dump {
    fn after_analysis<'tcx>(&mut self, _c: &Compiler, tcx: TyCtxt<'tcx>) -> Compilation {
        let name = tcx.crate_name(rustc_hir::def_id::LOCAL_CRATE).to_string();
        if self.crates.iter().any(|c| *c == name) {
            let facts = dump_crate(tcx, &name);
            let path = format!("{}/{}.json", self.out_dir, name);
            let mut s = String::with_capacity(1 << 24);
            facts.write(&mut s);
            std::fs::write(&path, s).expect("rqfacts: cannot write fact file");
        }
        Compilation::Continue
    }
}

fn main() {
    let mut args: Vec<String> = std::env::args().collect();
    // wrapper mode: argv[1] is the path of the real rustc
    if args.len() > 1 && (args[1].ends_with("rustc") || args[1].contains("/rustc")) {
        args.remove(1);
    }
    let out_dir = std::env::var("RQFACTS_OUT").unwrap_or_default();
    let crates: Vec<String> = std::env::var("RQFACTS_CRATES")
        .unwrap_or_else(|_| "raptorq".to_string())
        .split(',')
        .map(|s| s.to_string())
        .collect();
    // Determine crate name from args to avoid paying for callbacks elsewhere.
    let mut is_target = false;
    let mut it = args.iter();
    while let Some(a) = it.next() {
        if a == "--crate-name" {
            if let Some(n) = it.next() {
                is_target = crates.iter().any(|c| c == n);
            }
        }
    }
    if is_target && !out_dir.is_empty() {
        let mut cb = Dump { out_dir, crates };
        rustc_driver::run_compiler(&args, &mut cb);
    } else {
        rustc_driver::run_compiler(&args, &mut NoCb);
    }
}

// ---------------------------------------------------------------------------

fn span_j(tcx: TyCtxt<'_>, sp: Span) -> J {
    let sm = tcx.sess.source_map();
    let lo = sm.lookup_char_pos(sp.lo());
    let hi = sm.lookup_char_pos(sp.hi());
    let file = match &lo.file.name {
        rustc_span::FileName::Real(r) => match r.local_path() {
            Some(p) => p.to_string_lossy().to_string(),
            None => format!("{:?}", lo.file.name),
        },
        other => format!("{:?}", other),
    };
    J::obj(vec![
        ("file", J::s(file)),
        ("l0", J::n(lo.line as i128)),
        ("c0", J::n(lo.col.0 as i128)),
        ("l1", J::n(hi.line as i128)),
        ("c1", J::n(hi.col.0 as i128)),
        ("exp", J::Bool(sp.from_expansion())),
    ])
}

/// Span of the outermost user-written call site (for macro-expanded code).
fn user_span(sp: Span) -> Span {
    sp.source_callsite()
}

fn ty_j<'tcx>(tcx: TyCtxt<'tcx>, t: Ty<'tcx>) -> J {
    let mut f: Vec<(&str, J)> = vec![("s", J::s(format!("{}", t)))];
    match t.kind() {
        ty::Bool => f.push(("k", J::s("bool"))),
        ty::Char => f.push(("k", J::s("char"))),
        ty::Int(it) => {
            f.push(("k", J::s("int")));
            f.push(("signed", J::Bool(true)));
            f.push(("bits", J::n(it.bit_width().unwrap_or(64) as i128)));
            f.push(("psize", J::Bool(it.bit_width().is_none())));
        }
        ty::Uint(ut) => {
            f.push(("k", J::s("int")));
            f.push(("signed", J::Bool(false)));
            f.push(("bits", J::n(ut.bit_width().unwrap_or(64) as i128)));
            f.push(("psize", J::Bool(ut.bit_width().is_none())));
        }
        ty::Float(_) => f.push(("k", J::s("float"))),
        ty::Adt(adt, args) => {
            f.push(("k", J::s("adt")));
            f.push(("adt", J::s(tcx.def_path_str(adt.did()))));
            f.push((
                "args",
                J::Arr(
                    args.iter()
                        .filter_map(|a| a.as_type())
                        .map(|t| ty_j(tcx, t))
                        .collect(),
                ),
            ));
        }
        ty::Ref(_, inner, m) => {
            f.push(("k", J::s("ref")));
            f.push(("mut", J::Bool(m.is_mut())));
            f.push(("to", ty_j(tcx, *inner)));
        }
        ty::RawPtr(inner, m) => {
            f.push(("k", J::s("ptr")));
            f.push(("mut", J::Bool(m.is_mut())));
            f.push(("to", ty_j(tcx, *inner)));
        }
        ty::Slice(inner) => {
            f.push(("k", J::s("slice")));
            f.push(("of", ty_j(tcx, *inner)));
        }
        ty::Array(inner, len) => {
            f.push(("k", J::s("array")));
            f.push(("of", ty_j(tcx, *inner)));
            match len.try_to_target_usize(tcx) {
                Some(n) => f.push(("len", J::n(n as i128))),
                None => f.push(("len", J::Null)),
            }
        }
        ty::Tuple(ts) => {
            f.push(("k", J::s("tuple")));
            f.push(("elems", J::Arr(ts.iter().map(|t| ty_j(tcx, t)).collect())));
        }
        ty::FnDef(did, _) => {
            f.push(("k", J::s("fndef")));
            f.push(("def", J::s(tcx.def_path_str(*did))));
        }
        ty::Closure(did, _) => {
            f.push(("k", J::s("closure")));
            f.push(("def", J::s(tcx.def_path_str(*did))));
        }
        ty::Param(_) => f.push(("k", J::s("param"))),
        ty::Never => f.push(("k", J::s("never"))),
        ty::Str => f.push(("k", J::s("str"))),
        _ => f.push(("k", J::s("other"))),
    }
    J::obj(f)
}

fn place_j<'tcx>(tcx: TyCtxt<'tcx>, body: &Body<'tcx>, p: &Place<'tcx>) -> J {
    let mut proj = Vec::new();
    let mut pty = mir::PlaceTy::from_ty(body.local_decls[p.local].ty);
    for elem in p.projection.iter() {
        let e = match elem {
            ProjectionElem::Deref => J::obj(vec![("p", J::s("deref"))]),
            ProjectionElem::Field(f, t) => {
                let mut v = vec![("p", J::s("field")), ("i", J::n(f.index() as i128))];
                // field name when the base is an ADT
                if let ty::Adt(adt, _) = pty.ty.kind() {
                    let variant = match pty.variant_index {
                        Some(vi) => Some(adt.variant(vi)),
                        None => {
                            if adt.is_struct() || adt.is_union() {
                                Some(adt.non_enum_variant())
                            } else {
                                None
                            }
                        }
                    };
                    if let Some(var) = variant {
                        if let Some(fd) = var.fields.iter().nth(f.index()) {
                            v.push(("name", J::s(fd.name.to_string())));
                        }
                        v.push(("adt", J::s(tcx.def_path_str(adt.did()))));
                        if pty.variant_index.is_some() {
                            v.push(("variant", J::s(var.name.to_string())));
                        }
                    }
                }
                v.push(("ty", J::s(format!("{}", t))));
                J::obj(v)
            }
            ProjectionElem::Index(l) => {
                J::obj(vec![("p", J::s("index")), ("l", J::n(l.index() as i128))])
            }
            ProjectionElem::ConstantIndex { offset, min_length, from_end } => J::obj(vec![
                ("p", J::s("cindex")),
                ("off", J::n(offset as i128)),
                ("min", J::n(min_length as i128)),
                ("from_end", J::Bool(from_end)),
            ]),
            ProjectionElem::Subslice { from, to, from_end } => J::obj(vec![
                ("p", J::s("subslice")),
                ("from", J::n(from as i128)),
                ("to", J::n(to as i128)),
                ("from_end", J::Bool(from_end)),
            ]),
            ProjectionElem::Downcast(name, vi) => J::obj(vec![
                ("p", J::s("downcast")),
                ("variant", J::s(name.map(|n| n.to_string()).unwrap_or_default())),
                ("vi", J::n(vi.index() as i128)),
            ]),
            ProjectionElem::OpaqueCast(_) => J::obj(vec![("p", J::s("opaque"))]),
            ProjectionElem::UnwrapUnsafeBinder(_) => J::obj(vec![("p", J::s("unwrap_binder"))]),
        };
        proj.push(e);
        pty = pty.projection_ty(tcx, elem);
    }
    J::obj(vec![
        ("l", J::n(p.local.index() as i128)),
        ("proj", J::Arr(proj)),
        ("ty", J::s(format!("{}", pty.ty))),
    ])
}

fn scalar_int_of_const<'tcx>(
    tcx: TyCtxt<'tcx>,
    env: TypingEnv<'tcx>,
    c: &mir::Const<'tcx>,
) -> Option<i128> {
    let t = c.ty();
    let is_int = matches!(t.kind(), ty::Int(_) | ty::Uint(_) | ty::Bool | ty::Char);
    if !is_int {
        return None;
    }
    let si = c.try_eval_scalar_int(tcx, env)?;
    let size = si.size();
    match t.kind() {
        ty::Int(_) => Some(si.to_int(size)),
        _ => Some(si.to_uint(size) as i128),
    }
}

fn const_j<'tcx>(tcx: TyCtxt<'tcx>, owner: DefId, c: &ConstOperand<'tcx>) -> J {
    let env = TypingEnv::post_analysis(tcx, owner);
    let k = &c.const_;
    let t = k.ty();
    let mut f: Vec<(&str, J)> = vec![("o", J::s("const")), ("ty", ty_j(tcx, t))];
    if let ty::FnDef(did, args) = t.kind() {
        f.push(("fn", J::s(tcx.def_path_str(*did))));
        f.push(("fn_full", J::s(tcx.def_path_str_with_args(*did, args))));
        return J::obj(f);
    }
    if let Some(v) = scalar_int_of_const(tcx, env, k) {
        f.push(("v", J::n(v)));
    }
    match k {
        mir::Const::Unevaluated(u, _) => {
            f.push(("uneval", J::s(tcx.def_path_str(u.def))));
            if let Some(p) = u.promoted {
                f.push(("promoted", J::n(p.index() as i128)));
            }
        }
        mir::Const::Val(v, _) => {
            // references to statics / allocations
            if let mir::ConstValue::Scalar(rustc_middle::mir::interpret::Scalar::Ptr(p, _)) = v {
                let (prov, _off) = p.into_raw_parts();
                let aid = prov.alloc_id();
                if let Some(ga) = tcx.try_get_global_alloc(aid) {
                    match ga {
                        rustc_middle::mir::interpret::GlobalAlloc::Static(did) => {
                            f.push(("static", J::s(tcx.def_path_str(did))));
                        }
                        rustc_middle::mir::interpret::GlobalAlloc::Memory(_) => {
                            f.push(("alloc", J::n(aid.0.get() as i128)));
                        }
                        _ => {}
                    }
                }
            }
            if let mir::ConstValue::Slice { .. } = v {
                f.push(("strlit", J::s(format!("{}", k))));
            }
        }
        mir::Const::Ty(..) => {}
    }
    f.push(("txt", J::s(format!("{}", k))));
    J::obj(f)
}

fn operand_j<'tcx>(tcx: TyCtxt<'tcx>, owner: DefId, body: &Body<'tcx>, o: &Operand<'tcx>) -> J {
    match o {
        Operand::Copy(p) => {
            let mut j = place_j(tcx, body, p);
            if let J::Obj(ref mut v) = j {
                v.push(("o".to_string(), J::s("copy")));
            }
            j
        }
        Operand::Move(p) => {
            let mut j = place_j(tcx, body, p);
            if let J::Obj(ref mut v) = j {
                v.push(("o".to_string(), J::s("move")));
            }
            j
        }
        Operand::Constant(c) => const_j(tcx, owner, c),
        #[allow(unreachable_patterns)]
        _ => J::obj(vec![("o", J::s("other")), ("txt", J::s(format!("{:?}", o)))]),
    }
}

fn rvalue_j<'tcx>(tcx: TyCtxt<'tcx>, owner: DefId, body: &Body<'tcx>, rv: &Rvalue<'tcx>) -> J {
    let op = |o: &Operand<'tcx>| operand_j(tcx, owner, body, o);
    match rv {
        Rvalue::Use(o, ..) => J::obj(vec![("r", J::s("use")), ("a", op(o))]),
        Rvalue::Repeat(o, n) => J::obj(vec![
            ("r", J::s("repeat")),
            ("a", op(o)),
            (
                "n",
                match n.try_to_target_usize(tcx) {
                    Some(n) => J::n(n as i128),
                    None => J::Null,
                },
            ),
        ]),
        Rvalue::Ref(_, bk, p) => J::obj(vec![
            ("r", J::s("ref")),
            ("mut", J::Bool(matches!(bk, BorrowKind::Mut { .. }))),
            ("fake", J::Bool(matches!(bk, BorrowKind::Fake(_)))),
            ("p", place_j(tcx, body, p)),
        ]),
        Rvalue::RawPtr(k, p) => J::obj(vec![
            ("r", J::s("rawptr")),
            ("kind", J::s(format!("{:?}", k))),
            ("p", place_j(tcx, body, p)),
        ]),
        Rvalue::Cast(kind, o, t) => J::obj(vec![
            ("r", J::s("cast")),
            ("kind", J::s(format!("{:?}", kind))),
            ("a", op(o)),
            ("from", ty_j(tcx, o.ty(&body.local_decls, tcx))),
            ("to", ty_j(tcx, *t)),
        ]),
        Rvalue::BinaryOp(bop, ab) => J::obj(vec![
            ("r", J::s("binop")),
            ("op", J::s(format!("{:?}", bop))),
            ("a", op(&ab.0)),
            ("b", op(&ab.1)),
            ("aty", ty_j(tcx, ab.0.ty(&body.local_decls, tcx))),
        ]),
        Rvalue::UnaryOp(uop, o) => J::obj(vec![
            ("r", J::s("unop")),
            ("op", J::s(format!("{:?}", uop))),
            ("a", op(o)),
            ("aty", ty_j(tcx, o.ty(&body.local_decls, tcx))),
        ]),
        Rvalue::Discriminant(p) => {
            J::obj(vec![("r", J::s("discr")), ("p", place_j(tcx, body, p))])
        }
        Rvalue::Aggregate(kind, ops) => {
            let mut f = vec![("r", J::s("aggregate"))];
            match &**kind {
                AggregateKind::Array(t) => {
                    f.push(("agg", J::s("array")));
                    f.push(("ety", ty_j(tcx, *t)));
                }
                AggregateKind::Tuple => f.push(("agg", J::s("tuple"))),
                AggregateKind::Adt(did, vi, _, _, _) => {
                    f.push(("agg", J::s("adt")));
                    f.push(("adt", J::s(tcx.def_path_str(*did))));
                    let adt = tcx.adt_def(*did);
                    let var = adt.variant(*vi);
                    f.push(("variant", J::s(var.name.to_string())));
                    f.push(("vi", J::n(vi.index() as i128)));
                    f.push((
                        "fields",
                        J::Arr(var.fields.iter().map(|fd| J::s(fd.name.to_string())).collect()),
                    ));
                }
                AggregateKind::Closure(did, _) => {
                    f.push(("agg", J::s("closure")));
                    f.push(("def", J::s(tcx.def_path_str(*did))));
                }
                AggregateKind::RawPtr(t, m) => {
                    f.push(("agg", J::s("rawptr")));
                    f.push(("ety", ty_j(tcx, *t)));
                    f.push(("mut", J::Bool(m.is_mut())));
                }
                _ => f.push(("agg", J::s("other"))),
            }
            f.push(("ops", J::Arr(ops.iter().map(|o| op(o)).collect())));
            J::obj(f)
        }
        Rvalue::CopyForDeref(p) => J::obj(vec![
            ("r", J::s("use")),
            ("a", {
                let mut j = place_j(tcx, body, p);
                if let J::Obj(ref mut v) = j {
                    v.push(("o".to_string(), J::s("copy")));
                }
                j
            }),
        ]),
        Rvalue::ThreadLocalRef(d) => {
            J::obj(vec![("r", J::s("tls")), ("def", J::s(tcx.def_path_str(*d)))])
        }
        Rvalue::WrapUnsafeBinder(o, _) => J::obj(vec![("r", J::s("use")), ("a", op(o))]),
        #[allow(unreachable_patterns)]
        _ => J::obj(vec![("r", J::s("other")), ("txt", J::s(format!("{:?}", rv)))]),
    }
}

fn target_features_of(tcx: TyCtxt<'_>, did: DefId) -> Vec<String> {
    match tcx.def_kind(did) {
        DefKind::Fn | DefKind::AssocFn | DefKind::Closure | DefKind::Ctor(..) => {}
        _ => return vec![],
    }
    let attrs = tcx.codegen_fn_attrs(did);
    let mut v: Vec<String> = attrs.target_features.iter().map(|f| f.name.to_string()).collect();
    v.sort();
    v.dedup();
    v
}

fn call_j<'tcx>(
    tcx: TyCtxt<'tcx>,
    owner: DefId,
    body: &Body<'tcx>,
    func: &Operand<'tcx>,
    args: &[rustc_span::Spanned<Operand<'tcx>>],
    destination: &Place<'tcx>,
    target: Option<BasicBlock>,
    unwind: &UnwindAction,
) -> J {
    let mut f: Vec<(&str, J)> = vec![("t", J::s("call"))];
    let fty = func.ty(&body.local_decls, tcx);
    match fty.kind() {
        ty::FnDef(did, gargs) => {
            f.push(("callee", J::s(tcx.def_path_str(*did))));
            f.push(("callee_full", J::s(tcx.def_path_str_with_args(*did, gargs))));
            f.push((
                "gargs",
                J::Arr(
                    gargs
                        .iter()
                        .filter_map(|a| a.as_type())
                        .map(|t| ty_j(tcx, t))
                        .collect(),
                ),
            ));
            f.push(("callee_local", J::Bool(did.is_local())));
            f.push(("callee_krate", J::s(tcx.crate_name(did.krate).to_string())));
            f.push(("intrinsic", J::Bool(tcx.intrinsic(*did).is_some())));
            let sig_unsafe = tcx.fn_sig(*did).skip_binder().safety().is_unsafe();
            f.push(("callee_unsafe", J::Bool(sig_unsafe)));
            // resolution
            let env = TypingEnv::post_analysis(tcx, owner);
            let mut resolved: Option<DefId> = None;
            if let Ok(Some(inst)) = Instance::try_resolve(tcx, env, *did, gargs) {
                let rd = inst.def_id();
                resolved = Some(rd);
                f.push(("resolved", J::s(tcx.def_path_str(rd))));
                f.push(("resolved_local", J::Bool(rd.is_local())));
                f.push(("resolved_kind", J::s(format!("{:?}", inst.def).split('(').next().unwrap_or("").to_string())));
            } else {
                f.push(("resolved", J::Null));
            }
            let tf_did = resolved.unwrap_or(*did);
            let tf = target_features_of(tcx, tf_did);
            f.push(("callee_tf", J::Arr(tf.into_iter().map(J::s).collect())));
            // trait method?
            if let Some(tr) = tcx.trait_of_assoc(*did) {
                f.push(("trait", J::s(tcx.def_path_str(tr))));
            }
        }
        _ => {
            f.push(("callee", J::Null));
            f.push(("fnop", operand_j(tcx, owner, body, func)));
            f.push(("fnty", ty_j(tcx, fty)));
        }
    }
    f.push((
        "args",
        J::Arr(args.iter().map(|a| operand_j(tcx, owner, body, &a.node)).collect()),
    ));
    f.push(("dest", place_j(tcx, body, destination)));
    f.push((
        "target",
        match target {
            Some(b) => J::n(b.index() as i128),
            None => J::Null,
        },
    ));
    f.push((
        "unwind",
        match unwind {
            UnwindAction::Cleanup(b) => J::n(b.index() as i128),
            _ => J::Null,
        },
    ));
    J::obj(f)
}

fn body_j<'tcx>(tcx: TyCtxt<'tcx>, owner: DefId, body: &Body<'tcx>) -> J {
    // user variable names
    let mut names: Vec<Option<String>> = vec![None; body.local_decls.len()];
    for vdi in &body.var_debug_info {
        if let VarDebugInfoContents::Place(p) = &vdi.value {
            if p.projection.is_empty() {
                names[p.local.index()] = Some(vdi.name.to_string());
            }
        }
    }
    let locals: Vec<J> = body
        .local_decls
        .iter_enumerated()
        .map(|(l, d)| {
            J::obj(vec![
                ("i", J::n(l.index() as i128)),
                ("ty", ty_j(tcx, d.ty)),
                (
                    "name",
                    match &names[l.index()] {
                        Some(n) => J::s(n.clone()),
                        None => J::Null,
                    },
                ),
                ("user", J::Bool(names[l.index()].is_some())),
                ("mut", J::Bool(d.mutability.is_mut())),
            ])
        })
        .collect();
    // captured upvar names via var_debug_info on _1 projections
    let mut upvars = Vec::new();
    for vdi in &body.var_debug_info {
        if let VarDebugInfoContents::Place(p) = &vdi.value {
            if !p.projection.is_empty() {
                upvars.push(J::obj(vec![
                    ("name", J::s(vdi.name.to_string())),
                    ("place", place_j(tcx, body, p)),
                ]));
            }
        }
    }
    let mut blocks = Vec::new();
    for (bb, data) in body.basic_blocks.iter_enumerated() {
        let mut stmts = Vec::new();
        for st in &data.statements {
            let sj = match &st.kind {
                StatementKind::Assign(b) => {
                    let (p, rv) = &**b;
                    Some(vec![
                        ("s", J::s("assign")),
                        ("lhs", place_j(tcx, body, p)),
                        ("rv", rvalue_j(tcx, owner, body, rv)),
                    ])
                }
                StatementKind::SetDiscriminant { place, variant_index } => Some(vec![
                    ("s", J::s("setdiscr")),
                    ("lhs", place_j(tcx, body, place)),
                    ("vi", J::n(variant_index.index() as i128)),
                ]),
                StatementKind::Intrinsic(i) => Some(vec![
                    ("s", J::s("intrinsic")),
                    ("txt", J::s(format!("{:?}", i))),
                ]),
                StatementKind::StorageLive(_)
                | StatementKind::StorageDead(_)
                | StatementKind::Nop
                | StatementKind::FakeRead(..)
                | StatementKind::PlaceMention(..)
                | StatementKind::AscribeUserType(..)
                | StatementKind::Coverage(..)
                | StatementKind::ConstEvalCounter
                | StatementKind::BackwardIncompatibleDropHint { .. } => None,
                #[allow(unreachable_patterns)]
                _ => Some(vec![("s", J::s("other")), ("txt", J::s(format!("{:?}", st.kind)))]),
            };
            if let Some(mut v) = sj {
                v.push(("sp", span_j(tcx, st.source_info.span)));
                if st.source_info.span.from_expansion() {
                    v.push(("usp", span_j(tcx, user_span(st.source_info.span))));
                }
                stmts.push(J::obj(v));
            }
        }
        let term = data.terminator();
        let mut tj: Vec<(&str, J)> = match &term.kind {
            TerminatorKind::Goto { target } => {
                vec![("t", J::s("goto")), ("target", J::n(target.index() as i128))]
            }
            TerminatorKind::SwitchInt { discr, targets } => {
                let mut arms = Vec::new();
                for (v, b) in targets.iter() {
                    arms.push(J::Arr(vec![J::n(v as i128), J::n(b.index() as i128)]));
                }
                vec![
                    ("t", J::s("switch")),
                    ("discr", operand_j(tcx, owner, body, discr)),
                    ("dty", ty_j(tcx, discr.ty(&body.local_decls, tcx))),
                    ("arms", J::Arr(arms)),
                    ("otherwise", J::n(targets.otherwise().index() as i128)),
                ]
            }
            TerminatorKind::Return => vec![("t", J::s("return"))],
            TerminatorKind::Unreachable => vec![("t", J::s("unreachable"))],
            TerminatorKind::UnwindResume => vec![("t", J::s("resume"))],
            TerminatorKind::UnwindTerminate(_) => vec![("t", J::s("terminate"))],
            TerminatorKind::Drop { place, target, unwind, .. } => vec![
                ("t", J::s("drop")),
                ("p", place_j(tcx, body, place)),
                ("target", J::n(target.index() as i128)),
                (
                    "unwind",
                    match unwind {
                        UnwindAction::Cleanup(b) => J::n(b.index() as i128),
                        _ => J::Null,
                    },
                ),
            ],
            TerminatorKind::Call { func, args, destination, target, unwind, .. } => {
                match call_j(tcx, owner, body, func, args, destination, *target, unwind) {
                    J::Obj(v) => {
                        // convert owned keys back
                        let mut out: Vec<(&str, J)> = Vec::new();
                        for (k, val) in v {
                            out.push((Box::leak(k.into_boxed_str()), val));
                        }
                        out
                    }
                    _ => vec![],
                }
            }
            TerminatorKind::Assert { cond, expected, msg, target, unwind } => {
                let (kind, ops): (String, Vec<J>) = match &**msg {
                    AssertKind::BoundsCheck { len, index } => (
                        "BoundsCheck".into(),
                        vec![operand_j(tcx, owner, body, len), operand_j(tcx, owner, body, index)],
                    ),
                    AssertKind::Overflow(op, a, b) => (
                        format!("Overflow({:?})", op),
                        vec![operand_j(tcx, owner, body, a), operand_j(tcx, owner, body, b)],
                    ),
                    AssertKind::OverflowNeg(a) => {
                        ("OverflowNeg".into(), vec![operand_j(tcx, owner, body, a)])
                    }
                    AssertKind::DivisionByZero(a) => {
                        ("DivisionByZero".into(), vec![operand_j(tcx, owner, body, a)])
                    }
                    AssertKind::RemainderByZero(a) => {
                        ("RemainderByZero".into(), vec![operand_j(tcx, owner, body, a)])
                    }
                    AssertKind::MisalignedPointerDereference { .. } => {
                        ("MisalignedPointerDereference".into(), vec![])
                    }
                    AssertKind::NullPointerDereference => ("NullPointerDereference".into(), vec![]),
                    other => (format!("{:?}", other).split('(').next().unwrap_or("").to_string(), vec![]),
                };
                vec![
                    ("t", J::s("assert")),
                    ("cond", operand_j(tcx, owner, body, cond)),
                    ("expected", J::Bool(*expected)),
                    ("kind", J::s(kind)),
                    ("ops", J::Arr(ops)),
                    ("target", J::n(target.index() as i128)),
                    (
                        "unwind",
                        match unwind {
                            UnwindAction::Cleanup(b) => J::n(b.index() as i128),
                            _ => J::Null,
                        },
                    ),
                ]
            }
            TerminatorKind::FalseEdge { real_target, .. } => {
                vec![("t", J::s("goto")), ("target", J::n(real_target.index() as i128))]
            }
            TerminatorKind::FalseUnwind { real_target, .. } => {
                vec![("t", J::s("goto")), ("target", J::n(real_target.index() as i128))]
            }
            other => vec![("t", J::s("other")), ("txt", J::s(format!("{:?}", other)))],
        };
        tj.push(("sp", span_j(tcx, term.source_info.span)));
        if term.source_info.span.from_expansion() {
            tj.push(("usp", span_j(tcx, user_span(term.source_info.span))));
        }
        blocks.push(J::obj(vec![
            ("i", J::n(bb.index() as i128)),
            ("cleanup", J::Bool(data.is_cleanup)),
            ("stmts", J::Arr(stmts)),
            ("term", J::obj(tj)),
        ]));
    }
    J::obj(vec![
        ("argc", J::n(body.arg_count as i128)),
        ("locals", J::Arr(locals)),
        ("upvars", J::Arr(upvars)),
        ("blocks", J::Arr(blocks)),
    ])
}

// ---------------------------------------------------------------------------
// constant decoding

fn decode_value<'tcx>(
    tcx: TyCtxt<'tcx>,
    env: TypingEnv<'tcx>,
    bytes: &[u8],
    off: usize,
    t: Ty<'tcx>,
    depth: usize,
) -> J {
    if depth > 6 {
        return J::Null;
    }
    let layout = match tcx.layout_of(env.as_query_input(t)) {
        Ok(l) => l,
        Err(_) => return J::Null,
    };
    let size = layout.size.bytes() as usize;
    if off + size > bytes.len() {
        return J::Null;
    }
    match t.kind() {
        ty::Uint(_) | ty::Bool | ty::Char => {
            let mut v: u128 = 0;
            for i in 0..size {
                v |= (bytes[off + i] as u128) << (8 * i);
            }
            J::n(v as i128)
        }
        ty::Int(_) => {
            let mut v: u128 = 0;
            for i in 0..size {
                v |= (bytes[off + i] as u128) << (8 * i);
            }
            let shift = 128 - 8 * size as u32;
            let sv = if size == 0 { 0 } else { ((v << shift) as i128) >> shift };
            J::n(sv)
        }
        ty::Array(inner, len) => {
            let n = match len.try_to_target_usize(tcx) {
                Some(n) => n as usize,
                None => return J::Null,
            };
            let il = match tcx.layout_of(env.as_query_input(*inner)) {
                Ok(l) => l,
                Err(_) => return J::Null,
            };
            let stride = il.size.bytes() as usize;
            let mut v = Vec::with_capacity(n);
            for i in 0..n {
                v.push(decode_value(tcx, env, bytes, off + i * stride, *inner, depth + 1));
            }
            J::Arr(v)
        }
        ty::Tuple(ts) => {
            let mut v = Vec::new();
            for (i, et) in ts.iter().enumerate() {
                let fo = layout.fields.offset(i).bytes() as usize;
                v.push(decode_value(tcx, env, bytes, off + fo, et, depth + 1));
            }
            J::Arr(v)
        }
        ty::Adt(adt, args) if adt.is_struct() => {
            let mut v = Vec::new();
            for (i, fd) in adt.non_enum_variant().fields.iter().enumerate() {
                let ft = fd.ty(tcx, args);
                let fo = layout.fields.offset(i).bytes() as usize;
                v.push((
                    Box::leak(fd.name.to_string().into_boxed_str()) as &str,
                    decode_value(tcx, env, bytes, off + fo, ft, depth + 1),
                ));
            }
            J::obj(v)
        }
        _ => J::Null,
    }
}

fn ty_is_decodable<'tcx>(tcx: TyCtxt<'tcx>, t: Ty<'tcx>) -> bool {
    match t.kind() {
        ty::Uint(_) | ty::Int(_) | ty::Bool | ty::Char => true,
        ty::Array(inner, _) => ty_is_decodable(tcx, *inner),
        ty::Tuple(ts) => ts.iter().all(|t| ty_is_decodable(tcx, t)),
        ty::Adt(adt, args) if adt.is_struct() => adt
            .non_enum_variant()
            .fields
            .iter()
            .all(|f| ty_is_decodable(tcx, f.ty(tcx, args))),
        _ => false,
    }
}

fn const_item_value<'tcx>(tcx: TyCtxt<'tcx>, did: DefId, t: Ty<'tcx>) -> J {
    let env = TypingEnv::fully_monomorphized();
    if !ty_is_decodable(tcx, t) {
        return J::Null;
    }
    let is_static = matches!(tcx.def_kind(did), DefKind::Static { .. });
    if is_static {
        if let Ok(alloc) = tcx.eval_static_initializer(did) {
            let a = alloc.inner();
            let len = a.len();
            let bytes = a.inspect_with_uninit_and_ptr_outside_interpreter(0..len);
            return decode_value(tcx, env, bytes, 0, t, 0);
        }
        return J::Null;
    }
    match tcx.const_eval_poly(did) {
        Ok(mir::ConstValue::Scalar(rustc_middle::mir::interpret::Scalar::Int(si))) => {
            let size = si.size();
            match t.kind() {
                ty::Int(_) => J::n(si.to_int(size)),
                _ => J::n(si.to_uint(size) as i128),
            }
        }
        Ok(mir::ConstValue::Indirect { alloc_id, offset }) => {
            let ga = tcx.global_alloc(alloc_id);
            let mem = ga.unwrap_memory();
            let a = mem.inner();
            let len = a.len();
            let bytes = a.inspect_with_uninit_and_ptr_outside_interpreter(0..len);
            decode_value(tcx, env, bytes, offset.bytes() as usize, t, 0)
        }
        Ok(mir::ConstValue::ZeroSized) => J::Arr(vec![]),
        _ => J::Null,
    }
}

// ---------------------------------------------------------------------------

struct UnsafeFinder<'tcx> {
    tcx: TyCtxt<'tcx>,
    out: Vec<J>,
}
impl<'tcx> rustc_hir::intravisit::Visitor<'tcx> for UnsafeFinder<'tcx> {
    fn visit_block(&mut self, b: &'tcx rustc_hir::Block<'tcx>) {
        if let rustc_hir::BlockCheckMode::UnsafeBlock(src) = b.rules {
            self.out.push(J::obj(vec![
                ("sp", span_j(self.tcx, b.span)),
                ("user", J::Bool(matches!(src, rustc_hir::UnsafeSource::UserProvided))),
            ]));
        }
        rustc_hir::intravisit::walk_block(self, b);
    }
}

fn vis_j(tcx: TyCtxt<'_>, did: DefId) -> J {
    match tcx.def_kind(did) {
        DefKind::Fn
        | DefKind::AssocFn
        | DefKind::Struct
        | DefKind::Enum
        | DefKind::Const { .. }
        | DefKind::Static { .. }
        | DefKind::Field
        | DefKind::AssocConst { .. } => {}
        _ => return J::Null,
    }
    match tcx.visibility(did) {
        ty::Visibility::Public => J::s("pub"),
        ty::Visibility::Restricted(m) => {
            if m.is_crate_root() {
                J::s("crate")
            } else {
                J::s(format!("in:{}", tcx.def_path_str(m)))
            }
        }
    }
}

fn dump_crate<'tcx>(tcx: TyCtxt<'tcx>, name: &str) -> J {
    let mut bodies = Vec::new();
    let mut consts = Vec::new();
    for ldid in tcx.hir_body_owners() {
        let did = ldid.to_def_id();
        let kind = tcx.def_kind(did);
        match kind {
            DefKind::Fn | DefKind::AssocFn | DefKind::Closure => {
                bodies.push(fn_j(tcx, ldid));
            }
            DefKind::Const { .. } | DefKind::Static { .. } | DefKind::AssocConst { .. } => {
                let t = tcx.type_of(did).instantiate_identity().skip_norm_wip();
                // skip generic assoc consts
                if tcx.generics_of(did).own_requires_monomorphization()
                    || tcx.generics_of(did).parent_count > 0
                {
                    continue;
                }
                let v = const_item_value(tcx, did, t);
                consts.push(J::obj(vec![
                    ("path", J::s(tcx.def_path_str(did))),
                    ("kind", J::s(format!("{:?}", kind).split(|c| c == ' ' || c == '{').next().unwrap_or("").to_string())),
                    ("ty", ty_j(tcx, t)),
                    ("vis", vis_j(tcx, did)),
                    ("sp", span_j(tcx, tcx.def_span(did))),
                    ("value", v),
                ]));
            }
            _ => {}
        }
    }
    // ADTs
    let mut adts = Vec::new();
    let mut impls = Vec::new();
    for id in tcx.hir_free_items() {
        let did = id.owner_id.to_def_id();
        match tcx.def_kind(did) {
            DefKind::Struct | DefKind::Enum | DefKind::Union => {
                let adt = tcx.adt_def(did);
                let mut variants = Vec::new();
                for v in adt.variants() {
                    let mut fields = Vec::new();
                    for fd in v.fields.iter() {
                        let ft = tcx.type_of(fd.did).instantiate_identity().skip_norm_wip();
                        fields.push(J::obj(vec![
                            ("name", J::s(fd.name.to_string())),
                            ("ty", ty_j(tcx, ft)),
                            ("vis", vis_j(tcx, fd.did)),
                        ]));
                    }
                    variants.push(J::obj(vec![
                        ("name", J::s(v.name.to_string())),
                        ("fields", J::Arr(fields)),
                    ]));
                }
                adts.push(J::obj(vec![
                    ("path", J::s(tcx.def_path_str(did))),
                    ("kind", J::s(format!("{:?}", tcx.def_kind(did)))),
                    ("vis", vis_j(tcx, did)),
                    ("variants", J::Arr(variants)),
                    ("sp", span_j(tcx, tcx.def_span(did))),
                ]));
            }
            DefKind::Impl { .. } => {
                let self_ty = tcx.type_of(did).instantiate_identity().skip_norm_wip();
                let tr = tcx.impl_opt_trait_ref(did).map(|t| {
                    let t = t.instantiate_identity().skip_norm_wip();
                    format!("{}", t.print_only_trait_path())
                });
                let auto = tcx.is_automatically_derived(did);
                let items: Vec<J> = tcx
                    .associated_item_def_ids(did)
                    .iter()
                    .map(|d| J::s(tcx.def_path_str(*d)))
                    .collect();
                impls.push(J::obj(vec![
                    ("path", J::s(tcx.def_path_str(did))),
                    ("self_ty", ty_j(tcx, self_ty)),
                    (
                        "trait",
                        match tr {
                            Some(t) => J::s(t),
                            None => J::Null,
                        },
                    ),
                    ("derived", J::Bool(auto)),
                    ("items", J::Arr(items)),
                    ("sp", span_j(tcx, tcx.def_span(did))),
                ]));
            }
            _ => {}
        }
    }
    let sess = tcx.sess;
    let mut cfgs: Vec<String> = sess
        .config
        .iter()
        .map(|(k, v)| match v {
            Some(v) => format!("{}={}", k, v),
            None => k.to_string(),
        })
        .collect();
    cfgs.sort();
    let mut base_tf: Vec<String> = sess.target_features.iter().map(|s| s.to_string()).collect();
    base_tf.sort();
    J::obj(vec![
        ("crate", J::s(name)),
        ("target", J::s(sess.opts.target_triple.to_string())),
        ("cfg", J::Arr(cfgs.into_iter().map(J::s).collect())),
        ("base_target_features", J::Arr(base_tf.into_iter().map(J::s).collect())),
        ("overflow_checks", J::Bool(sess.overflow_checks())),
        ("debug_assertions", J::Bool(sess.opts.debug_assertions)),
        ("fns", J::Arr(bodies)),
        ("consts", J::Arr(consts)),
        ("adts", J::Arr(adts)),
        ("impls", J::Arr(impls)),
    ])
}

fn fn_j<'tcx>(tcx: TyCtxt<'tcx>, ldid: LocalDefId) -> J {
    let did = ldid.to_def_id();
    let kind = tcx.def_kind(did);
    let mut f: Vec<(&str, J)> = vec![
        ("path", J::s(tcx.def_path_str(did))),
        ("kind", J::s(format!("{:?}", kind))),
        ("vis", vis_j(tcx, did)),
        ("sp", span_j(tcx, tcx.def_span(did))),
    ];
    // full item span (incl. body)
    let hir_id = tcx.local_def_id_to_hir_id(ldid);
    f.push(("full_sp", span_j(tcx, tcx.hir_span_with_body(hir_id))));
    if matches!(kind, DefKind::Fn | DefKind::AssocFn) {
        let sig = tcx.fn_sig(did).skip_binder();
        f.push(("unsafe", J::Bool(sig.safety().is_unsafe())));
        let sig = sig.skip_binder();
        f.push(("inputs", J::Arr(sig.inputs().iter().map(|t| ty_j(tcx, *t)).collect())));
        f.push(("output", ty_j(tcx, sig.output())));
    } else {
        f.push(("unsafe", J::Bool(false)));
    }
    let tf = target_features_of(tcx, did);
    f.push(("target_features", J::Arr(tf.into_iter().map(J::s).collect())));
    // parent impl / trait
    if let Some(parent) = tcx.opt_parent(did) {
        match tcx.def_kind(parent) {
            DefKind::Impl { .. } => {
                let self_ty = tcx.type_of(parent).instantiate_identity().skip_norm_wip();
                f.push(("impl_self", ty_j(tcx, self_ty)));
                if let Some(tr) = tcx.impl_opt_trait_ref(parent) {
                    let tr = tr.instantiate_identity().skip_norm_wip();
                    f.push(("impl_trait", J::s(format!("{}", tr.print_only_trait_path()))));
                    f.push(("impl_trait_full", J::s(format!("{}", tr))));
                }
                f.push(("impl_derived", J::Bool(tcx.is_automatically_derived(parent))));
            }
            DefKind::Trait => {
                f.push(("in_trait", J::s(tcx.def_path_str(parent))));
            }
            _ => {}
        }
        f.push(("parent", J::s(tcx.def_path_str(parent))));
    }
    if kind == DefKind::Closure {
        let mut p = tcx.typeck_root_def_id(did);
        if p == did {
            p = tcx.parent(did);
        }
        f.push(("closure_root", J::s(tcx.def_path_str(p))));
    }
    let generics = tcx.generics_of(did);
    f.push(("generic_count", J::n(generics.count() as i128)));
    // attributes of interest
    let in_test = tcx.sess.opts.test;
    f.push(("test_build", J::Bool(in_test)));
    // unsafe blocks
    let mut uf = UnsafeFinder { tcx, out: Vec::new() };
    let hbody = tcx.hir_body_owned_by(ldid);
    rustc_hir::intravisit::Visitor::visit_body(&mut uf, hbody);
    f.push(("unsafe_blocks", J::Arr(uf.out)));
    // MIR
    let body = tcx.optimized_mir(did);
    f.push(("mir", body_j(tcx, did, body)));
    let promoted = tcx.promoted_mir(did);
    let mut pj = Vec::new();
    for (_pi, pb) in promoted.iter_enumerated() {
        pj.push(body_j(tcx, did, pb));
    }
    f.push(("promoted", J::Arr(pj)));
    J::obj(f)
}
