"""Forward abstract interpretation over fact-file MIR (SymInterval domain).

Nothing here runs repository code: program inputs are abstract values
(intervals with affine bounds over named atoms).  Crate-local callees are
analysed inline per call context; library calls go through sa/models.py.

Obligations produced (sink):
  assert   every MIR Assert terminator (overflow, bounds, div-by-zero ...) reached
  panic    every reachable diverging call into core::panicking
  cast     every integer cast whose target type cannot hold the source type
An obligation is discharged in a context when the abstract state proves it;
its final status is the conjunction over all contexts in which it was reached.
"""
import re

from . import mir
from .aff import (Aff, IntV, INF, add, sub, mul, div, rem, shl, shr, bitand, bitor, bitxor, fits, wrap, join as ijoin,
                  widen as iwiden, leq as ileq, le_proved, norm, ty_range, fresh_vn, same as isame)

INT_RE = re.compile(r"^(u|i)(8|16|32|64|128|size)$")


def int_ty_of_str(s):
    m = INT_RE.match(s)
    if not m:
        return None
    bits = 64 if m.group(2) == "size" else int(m.group(2))
    return bits, m.group(1) == "i"


def int_ty(tj):
    if tj.get("k") == "int":
        return tj["bits"], tj["signed"]
    return None


# ---------------------------------------------------------------------------
# values

class BoolV:
    __slots__ = ("t", "f", "cond")

    def __init__(self, t=True, f=True, cond=None):
        self.t = t
        self.f = f
        self.cond = cond  # (op, IntV a, IntV b) | ("not", BoolV) | ("discr_eq", ...)

    def __repr__(self):
        return "Bool(%s%s)" % ("T" if self.t else "", "F" if self.f else "")


class TopV:
    __slots__ = ("ty",)

    def __init__(self, ty=None):
        self.ty = ty

    def __repr__(self):
        return "Top"


TOP = TopV()


class AggV:
    """tuple / struct / closure environment / single enum variant"""
    __slots__ = ("kind", "name", "fields", "variant")

    def __init__(self, kind, name, fields, variant=None):
        self.kind = kind
        self.name = name
        self.fields = tuple(fields)
        self.variant = variant

    def __repr__(self):
        return "%s{%s}" % (self.name or self.kind, ", ".join(repr(f) for f in self.fields))


class EnumV:
    """enum value: possible variants (index -> AggV of payload fields)"""
    __slots__ = ("name", "variants")

    def __init__(self, name, variants):
        self.name = name
        self.variants = dict(variants)

    def __repr__(self):
        return "Enum(%s)" % ",".join("%s%r" % (k, v) for k, v in self.variants.items())


def some(v):
    return EnumV("Option", {1: AggV("variant", "Some", [v], 1)})


def none():
    return EnumV("Option", {0: AggV("variant", "None", [], 0)})


def opt(v, may_none=True):
    d = {1: AggV("variant", "Some", [v], 1)}
    if may_none:
        d[0] = AggV("variant", "None", [], 0)
    return EnumV("Option", d)


class RefV:
    """reference or raw pointer to a place: target = ("loc", fid, local, proj) | ("obj", objid, proj)"""
    __slots__ = ("target", "mut")

    def __init__(self, target, mut=False):
        self.target = target
        self.mut = mut

    def __repr__(self):
        return "&%s%r" % ("mut " if self.mut else "", self.target)


class SliceV:
    """fat reference to a slice/array storage: object id, byte-less element view.
    start/len in elements of the object's element type."""
    __slots__ = ("obj", "len", "mut", "off")

    def __init__(self, obj, length, mut=False, off=None):
        self.obj = obj
        self.len = length
        self.mut = mut
        self.off = off  # element offset into the object (IntV) or None = 0

    def __repr__(self):
        return "&[obj%s; len=%r]" % (self.obj, self.len)


class PtrV:
    """raw pointer into storage object `obj` at byte offset `off`; esize = size of pointee type"""
    __slots__ = ("obj", "off", "esize", "mut")

    def __init__(self, obj, off, esize, mut=False):
        self.obj = obj
        self.off = off
        self.esize = esize
        self.mut = mut

    def __repr__(self):
        return "ptr(obj%s+%r,/%s)" % (self.obj, self.off, self.esize)


class FnV:
    __slots__ = ("path", "env")

    def __init__(self, path, env=None):
        self.path = path
        self.env = env


class IterV:
    """abstract iterator; immutable: `next` yields the hull of all items and may always end."""
    __slots__ = ("kind", "item", "count", "may_empty", "extra")

    def __init__(self, kind, item, count=None, may_empty=True, extra=None):
        self.kind = kind
        self.item = item      # value yielded (hull)
        self.count = count    # IntV number of items or None
        self.may_empty = may_empty
        self.extra = extra

    def __repr__(self):
        return "Iter(%s -> %r)" % (self.kind, self.item)


class Obj:
    """heap / parameter storage object.
    kind 'slice': elem (hull value), len (IntV, elements), esize (bytes), values (list or None)
    kind 'struct': fields list
    """
    __slots__ = ("kind", "elem", "len", "esize", "values", "fields", "name")

    def __init__(self, kind, elem=None, length=None, esize=1, values=None, fields=None, name=None):
        self.kind = kind
        self.elem = elem
        self.len = length
        self.esize = esize
        self.values = values
        self.fields = fields
        self.name = name

    def copy(self):
        return Obj(self.kind, self.elem, self.len, self.esize, self.values,
                   list(self.fields) if self.fields is not None else None, self.name)


# ---------------------------------------------------------------------------

class State:
    __slots__ = ("vals", "heap", "arng", "facts")

    def __init__(self, vals=None, heap=None, arng=None, facts=()):
        self.vals = vals if vals is not None else {}
        self.heap = heap if heap is not None else {}
        self.arng = arng if arng is not None else {}
        self.facts = facts      # path facts: affine forms >= 0 established by branches between exact values

    def copy(self):
        return State(dict(self.vals), dict(self.heap), dict(self.arng), self.facts)

    def add_fact(self, f):
        if f.is_const() or f in self.facts or len(self.facts) > 24:
            return
        self.facts = self.facts + (f,)


class Unsupported(Exception):
    pass


class Rng:
    """atom range lookup (state-refined ranges first) carrying the list of affine facts (>= 0)"""
    __slots__ = ("atoms", "ar", "facts", "_state")

    def __init__(self, atoms, ar, facts, state=None):
        self.atoms = atoms
        self.ar = ar
        self.facts = facts
        self._state = state

    def __call__(self, a):
        r = self.ar.get(a)
        if r is not None:
            return r
        return self.atoms[a]


def places_of(node):
    """all places syntactically occurring in a statement / terminator"""
    out = []

    def op(o):
        if isinstance(o, dict) and o.get("o") in ("copy", "move"):
            out.append(o)
    if node.get("s") == "assign":
        out.append(node["lhs"])
        rv = node["rv"]
        for k in ("a", "b"):
            if k in rv:
                op(rv[k])
        if "p" in rv:
            out.append(rv["p"])
        for o in rv.get("ops", []):
            op(o)
    elif "t" in node:
        t = node
        if t["t"] == "call":
            for a in t["args"]:
                op(a)
            out.append(t["dest"])
        elif t["t"] == "switch":
            op(t["discr"])
        elif t["t"] == "assert":
            op(t["cond"])
    return out


class Analysis:
    def __init__(self, crate, max_depth=6, widen_after=3):
        self.crate = crate
        self.atoms = {}          # name -> (lo, hi) declared range
        self.obls = {}           # (fn key, kind, fingerprint) -> dict
        self.max_depth = max_depth
        self.widen_after = widen_after
        self.fid = 0
        self.objid = 0
        self.stack = []          # (fn key, call site loc)
        self.summaries = {}      # callee path -> handler(an, st, fid, fn, term, args) -> (ret, st) | None
        self.unmodelled = {}     # callee -> count
        self.const_cache = {}
        self.visited_fns = set()
        self.on_return = {}      # fn key -> callback(an, st, ret) for postconditions
        self.trace = False
        self.cur_rng = None
        self.mem_log = []
        self.raw_parts_log = []
        self.views = {}          # view object (slice::from_raw_parts) -> (base object, byte offset IntV, element size)
        self.facts = []          # affine forms known to be >= 0 (table relations, domain assumptions)
        self.loop_atoms = {}
        self.loop_atom_info = {}
        self.induction_atoms = {}
        self.post_hooks = []     # fn(an, st, callee path, args, ret) -> ret : domain assumptions on call results
        from . import models
        self.models = models

    # -- atoms -------------------------------------------------------------
    def new_atom(self, name, lo, hi):
        base = name
        n = 1
        while name in self.atoms:
            n += 1
            name = "%s~%d" % (base, n)
        self.atoms[name] = (lo, hi)
        return name

    def rng_fn(self, st):
        return Rng(self.atoms, st.arng, (self.facts + list(st.facts)) if st.facts else self.facts, st)

    def prod_atom(self, a, b):
        """canonical atom for the product of two non-negative atoms"""
        x, y = sorted((a, b))
        name = "(%s*%s)" % (x, y)
        if name not in self.atoms:
            la, ha = self.atoms[x]
            lb, hb = self.atoms[y]
            self.atoms[name] = (la * lb, ha * hb)
        return name

    def scale_by_atom(self, aff, s):
        """aff * s for atom s >= 0, expanded into product atoms"""
        out = Aff(0, {s: aff.c}) if aff.c else Aff(0)
        for a, k in aff.t:
            if a.startswith("("):
                return None
            out = out + Aff(0, {self.prod_atom(a, s): k})
        return out

    def mul_sym(self, a, b, rng):
        """a * b where one side is exactly a single non-negative atom: keep affine bounds via product atoms"""
        for x, y in ((a, b), (b, a)):
            ey = y.exact() if y.slo is not None else None
            if ey is None:
                continue
            sg = ey.single()
            if sg is None or sg[1] != 1 or sg[2] != 0:
                continue
            s = sg[0]
            if s.startswith("(") or rng(s)[0] < 0 or x.nlo < 0:
                continue
            if x.slo is None and x.shi is None:
                continue
            slo = self.scale_by_atom(x.slo, s) if x.slo is not None else None
            shi = self.scale_by_atom(x.shi, s) if x.shi is not None else None
            if slo is None and shi is None:
                continue
            base = mul(a, b)
            # path facts over the atoms of x, multiplied by s >= 0, relate the product atoms
            xs = {at for bnd in (x.slo, x.shi) if bnd is not None for at, _ in bnd.t}
            st = getattr(rng, "_state", None)
            if st is not None:
                for f in list(st.facts):
                    if any(at in xs for at, _ in f.t) and not any(at.startswith("(") for at, _ in f.t):
                        pf = self.scale_by_atom(f, s)
                        if pf is not None:
                            st.add_fact(pf)
            return IntV(base.nlo, base.nhi, a.bits, a.signed, slo, shi)
        return None

    def atom_val(self, name, lo, hi, bits=64, signed=False):
        a = self.new_atom(name, lo, hi)
        af = Aff.atom(a)
        return IntV(lo, hi, bits, signed, af, af)

    def new_obj(self, st, obj):
        self.objid += 1
        st.heap[self.objid] = obj
        return self.objid

    # -- obligations -------------------------------------------------------
    def oblige(self, kind, fn, fingerprint, ok, loc, msg, detail=None):
        key = (fn.key, kind, fingerprint)
        o = self.obls.get(key)
        ctx = " <- ".join(k for k, _ in reversed(self.stack[-4:]))
        if o is None:
            o = {"fn": fn.key, "kind": kind, "fp": fingerprint, "ok": True, "loc": loc, "msg": msg, "n": 0,
                 "bad_ctx": [], "detail": None}
            self.obls[key] = o
        o["n"] += 1
        if not ok:
            o["ok"] = False
            if len(o["bad_ctx"]) < 4 and ctx not in o["bad_ctx"]:
                o["bad_ctx"].append(ctx)
            if detail is not None and o["detail"] is None:
                o["detail"] = detail

    def top_of_elem(self, esize):
        return IntV.top(esize * 8, False) if esize in (1, 2, 4, 8, 16) else TOP

    # -- entry values built from parameter types ---------------------------
    def entry_value(self, st, tj, name, depth=0):
        """most general abstract value of a parameter of type tj (fresh atoms for integers and lengths)"""
        k = tj.get("k")
        if k == "int":
            lo, hi = ty_range(tj["bits"], tj["signed"])
            return self.atom_val(name, lo, hi, tj["bits"], tj["signed"])
        if k == "bool":
            return BoolV()
        if k == "tuple":
            return AggV("tuple", None, [self.entry_value(st, e, "%s.%d" % (name, i), depth + 1) for i, e in enumerate(tj["elems"])])
        if k in ("ref", "ptr"):
            to = tj["to"]
            if to.get("k") == "slice":
                es = self.size_of(to["of"]) or 1
                ln = self.atom_val("len(%s)" % name, 0, (1 << 63) // es - 1)
                oid = self.new_obj(st, Obj("slice", self.entry_elem(to["of"]), ln, esize=es, name=name))
                return SliceV(oid, ln, tj.get("mut", False))
            if to.get("k") == "array" and to.get("len") is not None:
                es = self.size_of(to["of"]) or 1
                ln = IntV.const(to["len"])
                oid = self.new_obj(st, Obj("slice", self.entry_elem(to["of"]), ln, esize=es, name=name))
                return SliceV(oid, ln, tj.get("mut", False))
            inner = self.entry_value(st, to, name, depth + 1)
            if type(inner) is AggV and inner.kind == "struct":
                oid = self.new_obj(st, Obj("struct", fields=list(inner.fields), name=inner.name))
                return RefV(("obj", oid, ()), tj.get("mut", False))
            oid = self.new_obj(st, Obj("cell", elem=inner, name=name))
            return RefV(("obj", oid, ()), tj.get("mut", False))
        if k == "adt" and depth < 4:
            adt = tj["adt"]
            if adt in ("std::vec::Vec", "alloc::vec::Vec") and tj.get("args"):
                ety = tj["args"][0]
                es = self.size_of(ety) or 1
                ln = self.atom_val("len(%s)" % name, 0, (1 << 63) // es - 1)
                oid = self.new_obj(st, Obj("slice", self.entry_elem(ety), ln, esize=es, name=name))
                return SliceV(oid, ln, True)
            a = self.crate.adts.get(adt)
            if a is not None and a["kind"] == "Struct":
                fs = [self.entry_value(st, f["ty"], "%s.%s" % (name, f["name"]), depth + 1) for f in a["variants"][0]["fields"]]
                return AggV("struct", adt, fs)
        return TopV(tj.get("s"))

    def entry_elem(self, ety):
        it = int_ty(ety)
        if it:
            return IntV.top(it[0], it[1])
        return TOP

    def entry_args(self, st, fn, overrides=None):
        args = []
        for i in range(fn.argc):
            l = fn.locals[i + 1]
            nm = l.get("name") or "arg%d" % (i + 1)
            if overrides and nm in overrides:
                args.append(overrides[nm](self, st, l["ty"], nm))
            else:
                args.append(self.entry_value(st, l["ty"], nm))
        return args

    def analyse(self, fn, overrides=None, st=None):
        st = st or State()
        args = self.entry_args(st, fn, overrides)
        self.stack.append((fn.key, fn.loc()))
        try:
            return self.run_fn(fn, args, st)
        finally:
            self.stack.pop()

    # -- raw pointer dereferences in places --------------------------------
    def check_raw_derefs(self, st, fid, fn, places, node, record):
        if not record:
            return
        for p in places:
            for i, e in enumerate(p["proj"]):
                if e["p"] != "deref":
                    continue
                if i != 0:
                    continue
                lty = fn.locals[p["l"]]["ty"]
                if lty.get("k") != "ptr":
                    continue
                v = self.read_local(st, fid, p["l"], fn)
                width = self.size_of(lty["to"]) or 1
                fp = "deref#%d" % self._deref_index(fn, node, p)
                if type(v) is not PtrV:
                    self.oblige("mem", fn, fp, False, mir.stmt_loc(node), "raw pointer dereference: provenance unknown",
                                {"ptr": repr(v)})
                    continue
                o = st.heap.get(v.obj)
                if o is None or o.kind != "slice":
                    self.oblige("mem", fn, fp, False, mir.stmt_loc(node), "raw pointer dereference: storage unknown", None)
                    continue
                rng = self.rng_fn(st)
                bl = norm(mul(o.len, IntV.const(o.esize)), rng)
                off = norm(v.off, rng)
                end = norm(add(off, IntV.const(width)), rng)
                ok = off.nlo >= 0 and le_proved(end, bl, rng)
                self.oblige("mem", fn, fp, ok, mir.stmt_loc(node),
                            "raw deref: %d byte(s) at offset %r within %r bytes" % (width, off, bl),
                            None if ok else {"offset": repr(off), "object_bytes": repr(bl)})
                self.mem_log.append({"fn": fn.key, "site": fp, "obj": v.obj, "off": off, "width": width,
                                     "write": (node.get("s") == "assign" and p is node["lhs"]), "what": "deref",
                                     "loc": mir.stmt_loc(node), "objname": o.name})

    def _deref_index(self, fn, node, place):
        idx = getattr(fn, "_deref_idx", None)
        if idx is None:
            idx = {}
            n = 0
            for blk in fn.blocks:
                if blk["cleanup"]:
                    continue
                for s in blk["stmts"] + [blk["term"]]:
                    for p in places_of(s):
                        if p["proj"] and p["proj"][0]["p"] == "deref" and fn.locals[p["l"]]["ty"].get("k") == "ptr":
                            idx[(id(s), id(p))] = n
                            n += 1
            fn._deref_idx = idx
            fn._deref_count = n
        return idx.get((id(node), id(place)), -1)

    # -- values from constants / types ------------------------------------
    def top_of(self, tj):
        if tj is None:
            return TOP
        k = tj.get("k")
        if k == "int":
            return IntV.top(tj["bits"], tj["signed"])
        if k == "bool":
            return BoolV()
        if k == "tuple":
            return AggV("tuple", None, [self.top_of(e) for e in tj["elems"]])
        return TopV(tj.get("s"))

    def top_of_str(self, s):
        it = int_ty_of_str(s)
        if it:
            return IntV.top(it[0], it[1])
        if s == "bool":
            return BoolV()
        return TopV(s)

    def value_of_json(self, v, tj):
        """decoded constant (from the driver) -> abstract value"""
        k = tj.get("k")
        if k == "int":
            return IntV.const(v, tj["bits"], tj["signed"])
        if k == "bool":
            return BoolV(bool(v), not bool(v))
        if k == "tuple":
            return AggV("tuple", None, [self.value_of_json(x, e) for x, e in zip(v, tj["elems"])])
        if k == "array":
            return None  # arrays become objects, see const_array_obj
        return TOP

    def const_array(self, st, path, tj, values):
        """storage object for a constant array (cached per state by name)"""
        for oid, o in st.heap.items():
            if o.name == path:
                return oid
        ety = tj["of"]
        elems = None
        hull = None
        if values is not None:
            if ety.get("k") in ("int", "bool", "tuple"):
                elems = [self.value_of_json(x, ety) for x in values]
                hull = self.hull_values(elems, st)
            elif ety.get("k") == "array":
                # nested array: elements are row objects; keep only a summary row
                elems = None
                inner_vals = [x for row in values for x in row]
                iety = ety["of"]
                if iety.get("k") == "int":
                    hull_inner = IntV(min(inner_vals), max(inner_vals), iety["bits"], iety["signed"])
                else:
                    hull_inner = TOP
                row = Obj("slice", hull_inner, IntV.const(ety["len"]), esize=self.size_of(iety), name=path + "[*]")
                rid = self.new_obj(st, row)
                hull = SliceV(rid, IntV.const(ety["len"]))
        if hull is None:
            hull = self.top_of(ety)
        n = tj.get("len")
        o = Obj("slice", hull, IntV.const(n) if n is not None else IntV.top(), esize=self.size_of(ety), values=elems,
                name=path)
        return self.new_obj(st, o)

    def size_of(self, tj):
        k = tj.get("k")
        if k == "int":
            return tj["bits"] // 8
        if k == "bool":
            return 1
        if k == "array":
            n = tj.get("len") or 0
            return n * self.size_of(tj["of"])
        if k == "tuple":
            # repr(Rust) but all-same-int tuples have the obvious size
            return sum(self.size_of(e) for e in tj["elems"])
        if k in ("ref", "ptr"):
            to = tj["to"]
            return 16 if to.get("k") in ("slice", "str") else 8
        s = tj.get("s", "")
        m = re.match(r"^(std|core)::arch::x86(_64)?::__m(128|256|512)i?$", s)
        if m:
            return int(m.group(3)) // 8
        return None

    def hull_values(self, vals, st):
        rng = self.rng_fn(st)
        h = vals[0]
        for v in vals[1:]:
            h = self.join_val(h, v, rng)
        # hulls of constants: drop value numbers
        return h

    # -- join / widen / leq on values -----------------------------------------
    def join_val(self, a, b, rng):
        if a is b:
            return a
        if a is None:
            return b
        if b is None:
            return a
        ta, tb = type(a), type(b)
        if ta is IntV and tb is IntV:
            return ijoin(a, b, rng)
        if ta is BoolV and tb is BoolV:
            return BoolV(a.t or b.t, a.f or b.f, a.cond if a.cond is b.cond else None)
        if ta is AggV and tb is AggV and len(a.fields) == len(b.fields) and a.variant == b.variant:
            return AggV(a.kind, a.name, [self.join_val(x, y, rng) for x, y in zip(a.fields, b.fields)], a.variant)
        if ta is EnumV and tb is EnumV:
            d = dict(a.variants)
            for k, v in b.variants.items():
                d[k] = self.join_val(d[k], v, rng) if k in d else v
            return EnumV(a.name, d)
        if ta is RefV and tb is RefV and a.target == b.target:
            return a
        if ta is SliceV and tb is SliceV and a.obj == b.obj:
            off = None
            if a.off is not None and b.off is not None:
                off = ijoin(a.off, b.off, rng)
            elif a.off is not None or b.off is not None:
                off = ijoin(a.off or IntV.const(0), b.off or IntV.const(0), rng)
            return SliceV(a.obj, ijoin(a.len, b.len, rng), a.mut, off)
        if ta is PtrV and tb is PtrV and a.obj == b.obj and a.esize == b.esize:
            return PtrV(a.obj, ijoin(a.off, b.off, rng), a.esize, a.mut)
        if ta is IterV and tb is IterV and a.kind == b.kind:
            return IterV(a.kind, self.join_val(a.item, b.item, rng),
                         ijoin(a.count, b.count, rng) if a.count is not None and b.count is not None else None,
                         a.may_empty or b.may_empty, a.extra)
        if ta is FnV and tb is FnV and a.path == b.path:
            return a
        return TOP

    def widen_val(self, a, b, rng, thresholds):
        ta, tb = type(a), type(b)
        if ta is IntV and tb is IntV:
            return iwiden(a, b, rng, thresholds)
        if ta is AggV and tb is AggV and len(a.fields) == len(b.fields) and a.variant == b.variant:
            return AggV(a.kind, a.name, [self.widen_val(x, y, rng, thresholds) for x, y in zip(a.fields, b.fields)],
                        a.variant)
        if ta is EnumV and tb is EnumV:
            d = {}
            for k in set(a.variants) | set(b.variants):
                if k in a.variants and k in b.variants:
                    d[k] = self.widen_val(a.variants[k], b.variants[k], rng, thresholds)
                else:
                    d[k] = a.variants.get(k) or b.variants.get(k)
            return EnumV(a.name, d)
        if ta is PtrV and tb is PtrV and a.obj == b.obj and a.esize == b.esize:
            return PtrV(a.obj, iwiden(a.off, b.off, rng, thresholds), a.esize, a.mut)
        if ta is SliceV and tb is SliceV and a.obj == b.obj:
            j = self.join_val(a, b, rng)
            if type(j) is SliceV:
                return SliceV(j.obj, iwiden(a.len, j.len, rng, thresholds), j.mut,
                              iwiden(a.off, j.off, rng, thresholds) if a.off is not None and j.off is not None else j.off)
            return j
        return self.join_val(a, b, rng)

    def leq_val(self, a, b, rng):
        if a is b:
            return True
        ta, tb = type(a), type(b)
        if tb is TopV:
            return True
        if ta is IntV and tb is IntV:
            return ileq(a, b, rng)
        if ta is BoolV and tb is BoolV:
            return (not a.t or b.t) and (not a.f or b.f)
        if ta is AggV and tb is AggV and len(a.fields) == len(b.fields) and a.variant == b.variant:
            return all(self.leq_val(x, y, rng) for x, y in zip(a.fields, b.fields))
        if ta is EnumV and tb is EnumV:
            return all(k in b.variants and self.leq_val(v, b.variants[k], rng) for k, v in a.variants.items())
        if ta is RefV and tb is RefV:
            return a.target == b.target
        if ta is SliceV and tb is SliceV:
            return a.obj == b.obj and ileq(a.len, b.len, rng) and (
                (a.off is None and b.off is None) or
                (a.off is not None and b.off is not None and ileq(a.off, b.off, rng)))
        if ta is PtrV and tb is PtrV:
            return a.obj == b.obj and a.esize == b.esize and ileq(a.off, b.off, rng)
        if ta is IterV and tb is IterV:
            return a.kind == b.kind and self.leq_val(a.item, b.item, rng) and (
                b.count is None or (a.count is not None and ileq(a.count, b.count, rng))) and (
                b.may_empty or not a.may_empty)
        if ta is FnV and tb is FnV:
            return a.path == b.path
        if ta is TopV:
            return False
        return False

    def join_obj(self, a, b, rng):
        if a is b:
            return a
        if a.kind != b.kind:
            return Obj("unknown")
        if a.kind == "slice":
            vals = None
            if a.values is not None and b.values is not None and len(a.values) == len(b.values):
                vals = [self.join_val(x, y, rng) for x, y in zip(a.values, b.values)]
            return Obj("slice", self.join_val(a.elem, b.elem, rng), ijoin(a.len, b.len, rng), a.esize, vals,
                       name=a.name)
        if a.kind == "struct":
            return Obj("struct", fields=[self.join_val(x, y, rng) for x, y in zip(a.fields, b.fields)], name=a.name)
        return a

    def leq_obj(self, a, b, rng):
        if a is b:
            return True
        if a.kind != b.kind:
            return b.kind == "unknown"
        if a.kind == "slice":
            return self.leq_val(a.elem, b.elem, rng) and ileq(a.len, b.len, rng)
        if a.kind == "struct":
            return all(self.leq_val(x, y, rng) for x, y in zip(a.fields, b.fields))
        return True

    def join_state(self, a, b, widen=False, thresholds=()):
        if a is None:
            return b
        if b is None:
            return a
        arng = {}
        for k in set(a.arng) | set(b.arng):
            ra = a.arng.get(k, self.atoms[k])
            rb = b.arng.get(k, self.atoms[k])
            r = (min(ra[0], rb[0]), max(ra[1], rb[1]))
            if r != self.atoms[k]:
                arng[k] = r
        out = State({}, {}, arng, tuple(f for f in a.facts if f in b.facts))
        rng = self.rng_fn(out)
        for k, va in a.vals.items():
            vb = b.vals.get(k)
            if vb is None:
                continue
            out.vals[k] = self.widen_val(va, vb, rng, thresholds) if widen else self.join_val(va, vb, rng)
        for k, oa in a.heap.items():
            ob = b.heap.get(k)
            if ob is None:
                continue
            out.heap[k] = self.join_obj(oa, ob, rng)
        return out

    def leq_state(self, a, b):
        """a included in b"""
        for f in b.facts:
            if f not in a.facts:
                return False
        rng = self.rng_fn(b)
        for k, r in a.arng.items():
            rb = b.arng.get(k, self.atoms[k])
            if r[0] < rb[0] or r[1] > rb[1]:
                return False
        for k in b.arng:
            if k not in a.arng:
                ra = self.atoms[k]
                rb = b.arng[k]
                if ra[0] < rb[0] or ra[1] > rb[1]:
                    return False
        for k, vb in b.vals.items():
            va = a.vals.get(k)
            if va is None:
                return False
            if not self.leq_val(va, vb, rng):
                return False
        for k, ob in b.heap.items():
            oa = a.heap.get(k)
            if oa is None:
                return False
            if not self.leq_obj(oa, ob, rng):
                return False
        return True

    # -- refinement --------------------------------------------------------
    def replace_vn(self, st, vn, fnew):
        """apply fnew(IntV) -> IntV to every stored integer with value number vn"""
        def rec(v):
            t = type(v)
            if t is IntV:
                if v.vn == vn:
                    return fnew(v)
                return v
            if t is AggV:
                nf = None
                for i, f in enumerate(v.fields):
                    r = rec(f)
                    if r is not f:
                        if nf is None:
                            nf = list(v.fields)
                        nf[i] = r
                return AggV(v.kind, v.name, nf, v.variant) if nf is not None else v
            if t is EnumV:
                ch = False
                d = {}
                for k, x in v.variants.items():
                    r = rec(x)
                    ch = ch or (r is not x)
                    d[k] = r
                return EnumV(v.name, d) if ch else v
            if t is SliceV:
                l = rec(v.len)
                o = rec(v.off) if v.off is not None else None
                if l is not v.len or o is not v.off:
                    return SliceV(v.obj, l, v.mut, o)
                return v
            if t is PtrV:
                o = rec(v.off)
                return PtrV(v.obj, o, v.esize, v.mut) if o is not v.off else v
            if t is IterV:
                it = rec(v.item)
                c = rec(v.count) if v.count is not None else None
                if it is not v.item or c is not v.count:
                    return IterV(v.kind, it, c, v.may_empty, v.extra)
                return v
            return v
        for k, v in list(st.vals.items()):
            r = rec(v)
            if r is not v:
                st.vals[k] = r
        for k, o in list(st.heap.items()):
            if o.kind == "struct":
                nf = None
                for i, f in enumerate(o.fields):
                    r = rec(f)
                    if r is not f:
                        if nf is None:
                            nf = list(o.fields)
                        nf[i] = r
                if nf is not None:
                    o2 = o.copy()
                    o2.fields = nf
                    st.heap[k] = o2
            elif o.kind == "slice":
                l = rec(o.len) if o.len is not None else None
                if l is not o.len:
                    o2 = o.copy()
                    o2.len = l
                    st.heap[k] = o2

    def refine_atom_from(self, st, v, lo=None, hi=None):
        """v is exact k*atom + c: tighten the atom's range from numeric bounds on v"""
        ex = v.exact() if v.slo is not None else None
        if ex is None:
            return True
        s = ex.single()
        if s is None:
            return True
        a, k, c = s
        rl, rh = st.arng.get(a, self.atoms[a])
        if k > 0:
            if lo is not None and lo != -INF:
                rl = max(rl, -((c - lo) // k))  # ceil((lo-c)/k)
            if hi is not None and hi != INF:
                rh = min(rh, (hi - c) // k)
        else:
            kk = -k
            if lo is not None and lo != -INF:
                rh = min(rh, (c - lo) // kk)
            if hi is not None and hi != INF:
                rl = max(rl, -((hi - c) // kk))
        if rl > rh:
            return False
        st.arng[a] = (rl, rh)
        return True

    @staticmethod
    def _choose_hi(old, new, rng):
        if new is None:
            return old
        if old is None:
            return new
        if old == new:
            return old
        if (new - old).lo(rng) >= 0:
            return old
        return new

    @staticmethod
    def _choose_lo(old, new, rng):
        if new is None:
            return old
        if old is None:
            return new
        if old == new:
            return old
        if (old - new).lo(rng) >= 0:
            return old
        return new

    def assume_cmp(self, st, op, a, b):
        """refine st under (a op b); returns False when infeasible"""
        if op in ("Gt", "Ge"):
            return self.assume_cmp(st, "Lt" if op == "Gt" else "Le", b, a)
        rng = self.rng_fn(st)
        a = self.cur(st, a)
        b = self.cur(st, b)
        if op in ("Lt", "Le"):
            d = 1 if op == "Lt" else 0
            # a <= b - d
            if a.nlo + d > b.nhi:
                return False
            if a.slo is not None and b.shi is not None and (a.slo - b.shi).lo(rng) + d > 0:
                return False
            # an exact affine value keeps its form (only its atoms' ranges are refined)
            a_ex = a.slo is not None and a.slo == a.shi
            b_ex = b.slo is not None and b.slo == b.shi
            if a_ex and b_ex and not (a.slo.is_const() and b.slo.is_const()):
                st.add_fact(b.slo - a.slo - d)      # the relation itself, as a path fact
                if len(a.slo.t) == 1:
                    (at, k), = a.slo.t
                    info = self.loop_atom_info.get(at) if k == 1 else None
                    if info is not None and at in self.induction_atoms and info.get("hi") is None and d == 1 \
                            and all(bt != at for bt, _ in b.slo.t):
                        info["hi"] = b.slo - 1 - a.slo.c   # while A + c < B: inside the body A <= B - 1 - c
            na = a.with_(nhi=min(a.nhi, b.nhi - d),
                         shi=a.shi if a_ex else self._choose_hi(a.shi, (b.shi - d) if b.shi is not None else None, rng))
            nb = b.with_(nlo=max(b.nlo, a.nlo + d),
                         slo=b.slo if b_ex else self._choose_lo(b.slo, (a.slo + d) if a.slo is not None else None, rng))
            if not self.refine_atom_from(st, a, hi=na.nhi):
                return False
            if not self.refine_atom_from(st, b, lo=nb.nlo):
                return False
            rng = self.rng_fn(st)
            na = norm(na, rng)
            nb = norm(nb, rng)
            if na.nlo > na.nhi or nb.nlo > nb.nhi:
                return False
            if a.vn == b.vn:
                return op == "Le"
            self.replace_vn(st, a.vn, lambda v, na=na: v.with_(nlo=max(v.nlo, na.nlo), nhi=min(v.nhi, na.nhi), slo=na.slo, shi=na.shi))
            self.replace_vn(st, b.vn, lambda v, nb=nb: v.with_(nlo=max(v.nlo, nb.nlo), nhi=min(v.nhi, nb.nhi), slo=nb.slo, shi=nb.shi))
            return True
        if op == "Eq":
            lo = max(a.nlo, b.nlo)
            hi = min(a.nhi, b.nhi)
            if lo > hi:
                return False
            ea, eb = a.exact() if a.slo is not None else None, b.exact() if b.slo is not None else None
            slo = self._choose_lo(a.slo, b.slo, rng)
            shi = self._choose_hi(a.shi, b.shi, rng)
            if eb is not None and ea is None:
                slo = shi = eb
            elif ea is not None and eb is None:
                slo = shi = ea
            elif ea is not None and eb is not None and ea != eb:
                # two exact affine forms that must be equal: keep the first, refine atoms numerically
                d = ea - eb
                if d.is_const() and d.c != 0:
                    return False
                slo = shi = ea
                # `assert_eq!(param, expr)`: a bare entry atom that must equal another exact form is replaced by that form
                # (later reads of the parameter then carry the relation), and the equality is kept as two path facts
                bare = lambda e: len(e.t) == 1 and e.c == 0 and e.t[0][1] == 1 and e.t[0][0] not in self.loop_atom_info
                if bare(ea) and all(at != ea.t[0][0] for at, _ in eb.t):
                    order = list(self.atoms)
                    if not bare(eb) or order.index(ea.t[0][0]) > order.index(eb.t[0][0]):
                        slo = shi = eb          # of two bare atoms the one created later (a parameter) is eliminated
                st.add_fact(ea - eb)
                st.add_fact(eb - ea)
            if not self.refine_atom_from(st, a, lo=lo, hi=hi):
                return False
            if not self.refine_atom_from(st, b, lo=lo, hi=hi):
                return False
            for v in (a, b):
                self.replace_vn(st, v.vn, lambda x, lo=lo, hi=hi, slo=slo, shi=shi: x.with_(nlo=max(x.nlo, lo), nhi=min(x.nhi, hi), slo=slo, shi=shi))
            return True
        if op == "Ne":
            if a.is_const() and b.is_const() and a.nlo == b.nlo:
                return False
            ea = a.exact()
            eb = b.exact()
            if ea is not None and eb is not None and ea == eb:
                return False
            # trim an endpoint
            for x, y in ((a, b), (b, a)):
                if y.is_const():
                    c = y.nlo
                    if x.nlo == c:
                        if x.nlo + 1 > x.nhi:
                            return False
                        if not self.refine_atom_from(st, x, lo=c + 1):
                            return False
                        self.replace_vn(st, x.vn, lambda v, c=c: v.with_(nlo=max(v.nlo, c + 1),
                                                                          slo=v.slo if (v.slo is not None and not v.slo.is_const()) else None))
                    elif x.nhi == c:
                        if not self.refine_atom_from(st, x, hi=c - 1):
                            return False
                        self.replace_vn(st, x.vn, lambda v, c=c: v.with_(nhi=min(v.nhi, c - 1),
                                                                          shi=v.shi if (v.shi is not None and not v.shi.is_const()) else None))
            return True
        return True

    def cur(self, st, v):
        """current version of an integer value (a stored copy with the same vn may have been refined)"""
        return norm(v, self.rng_fn(st))

    NEG = {"Lt": "Ge", "Le": "Gt", "Gt": "Le", "Ge": "Lt", "Eq": "Ne", "Ne": "Eq"}

    def assume_bool(self, st, bv, truth):
        """refine under bool value == truth; returns False if infeasible"""
        if type(bv) is not BoolV:
            return True
        if truth and not bv.t:
            return False
        if not truth and not bv.f:
            return False
        c = bv.cond
        if c is None:
            return True
        if c[0] == "not":
            return self.assume_bool(st, c[1], not truth)
        if c[0] == "cmp":
            op = c[1] if truth else self.NEG[c[1]]
            a = self.find_vn(st, c[2])
            b = self.find_vn(st, c[3])
            return self.assume_cmp(st, op, a, b)
        if c[0] == "hook":
            return c[1](self, st, truth)
        return True

    def find_vn(self, st, v):
        """latest stored version of value v (by vn) if any local still holds it"""
        vn = v.vn
        for x in st.vals.values():
            if type(x) is IntV and x.vn == vn:
                return x.with_(bits=v.bits, signed=v.signed)
        # nested occurrences
        found = []

        def rec(x):
            t = type(x)
            if t is IntV:
                if x.vn == vn:
                    found.append(x)
            elif t is AggV:
                for f in x.fields:
                    rec(f)
            elif t is EnumV:
                for f in x.variants.values():
                    rec(f)
            elif t is SliceV:
                rec(x.len)
        for x in st.vals.values():
            rec(x)
            if found:
                return found[0].with_(bits=v.bits, signed=v.signed)
        for o in st.heap.values():
            if o.kind == "struct":
                for f in o.fields:
                    rec(f)
            elif o.kind == "slice" and o.len is not None:
                rec(o.len)
            if found:
                return found[0].with_(bits=v.bits, signed=v.signed)
        return v

    # -- places --------------------------------------------------------------
    def read_local(self, st, fid, l, fn):
        v = st.vals.get((fid, l))
        if v is None:
            return self.top_of(fn.locals[l]["ty"])
        return v

    def project(self, st, fid, fn, v, proj, tystr):
        """read projection elements from value v; returns value"""
        for i, e in enumerate(proj):
            k = e["p"]
            t = type(v)
            if k == "deref":
                if t is RefV:
                    v = self.read_target(st, v.target, fn)
                elif t in (SliceV, PtrV):
                    # deref of slice ref: keep the view; deref of raw pointer: element read
                    if t is PtrV:
                        o = st.heap.get(v.obj)
                        v = o.elem if (o is not None and o.kind == "slice" and o.esize == v.esize) else TOP
                    # SliceV: stays (indexing happens next)
                else:
                    v = TOP
            elif k == "field":
                if t is AggV and e["i"] < len(v.fields):
                    v = v.fields[e["i"]]
                elif t is EnumV and len(v.variants) == 1:
                    a = next(iter(v.variants.values()))
                    v = a.fields[e["i"]] if e["i"] < len(a.fields) else TOP
                else:
                    v = self.top_of_str(e.get("ty", ""))
            elif k == "downcast":
                if t is EnumV:
                    a = v.variants.get(e["vi"])
                    v = a if a is not None else TOP
                else:
                    v = TOP
            elif k == "index":
                idx = self.read_local(st, fid, e["l"], fn)
                if type(v) is SliceV and v.obj in self.views and self._rec and type(idx) is IntV:
                    # checked read through a reinterpreting view: logged as a read of the underlying object
                    bobj, boff, es = self.views[v.obj]
                    rng = self.rng_fn(st)
                    pos = idx if v.off is None else add(idx, v.off)
                    off = norm(add(mul(pos, IntV.const(es)), boff), rng)
                    self.mem_log.append({"fn": fn.key, "site": "view-index", "obj": bobj, "off": off, "width": es,
                                         "write": False, "what": "checked index through a from_raw_parts view", "loc": None})
                v = self.index_value(st, v, idx)
            elif k == "cindex":
                v = self.index_value(st, v, IntV.const(e["off"])) if not e["from_end"] else self.index_value(st, v, IntV.top())
            else:
                v = TOP
            if type(v) is TopV and i == len(proj) - 1:
                return self.top_of_str(tystr)
        if type(v) is TopV:
            return self.top_of_str(tystr)
        return v

    def index_value(self, st, base, idx):
        t = type(base)
        if t is SliceV:
            o = st.heap.get(base.obj)
            if o is None or o.kind != "slice":
                return TOP
            if o.values is not None and type(idx) is IntV and idx.is_const() and base.off is None and 0 <= idx.nlo < len(o.values):
                return o.values[idx.nlo]
            if o.values is not None and type(idx) is IntV and base.off is None and idx.nhi - idx.nlo < 64 and 0 <= idx.nlo and idx.nhi < len(o.values):
                return self.hull_values(o.values[idx.nlo:idx.nhi + 1], st)
            return o.elem
        if t is AggV and base.kind == "array":
            if type(idx) is IntV and idx.is_const() and 0 <= idx.nlo < len(base.fields):
                return base.fields[idx.nlo]
            if base.fields:
                lo = max(0, idx.nlo) if type(idx) is IntV else 0
                hi = min(len(base.fields) - 1, idx.nhi) if type(idx) is IntV else len(base.fields) - 1
                if lo <= hi:
                    return self.hull_values(list(base.fields[lo:hi + 1]), st)
            return TOP
        return TOP

    def read_target(self, st, target, fn):
        if target[0] == "loc":
            _, fid, l, proj = target
            v = st.vals.get((fid, l))
            if v is None:
                return TOP
            for f in proj:
                t = type(v)
                if t is AggV and isinstance(f, int) and f < len(v.fields):
                    v = v.fields[f]
                elif t is EnumV and isinstance(f, tuple):
                    v = v.variants.get(f[1]) or TOP
                else:
                    return TOP
            return v
        if target[0] == "obj":
            _, oid, proj = target
            o = st.heap.get(oid)
            if o is None:
                return TOP
            if o.kind == "struct":
                if not proj:
                    return AggV("struct", o.name, o.fields)
                v = o.fields[proj[0]] if proj[0] < len(o.fields) else TOP
                for f in proj[1:]:
                    if type(v) is AggV and f < len(v.fields):
                        v = v.fields[f]
                    else:
                        return TOP
                return v
            if o.kind == "slice":
                if not proj:
                    return SliceV(oid, o.len)
                if proj[0] == "e":
                    self.log_elem(st, oid, o, proj[1], False)
                return o.elem
            if o.kind == "cell":
                return o.elem if not proj else TOP
            return TOP
        return TOP

    def read_place(self, st, fid, fn, p):
        v = self.read_local(st, fid, p["l"], fn)
        if not p["proj"]:
            return v
        return self.project(st, fid, fn, v, p["proj"], p["ty"])

    def read_operand(self, st, fid, fn, o):
        k = o.get("o")
        if k == "const":
            return self.const_operand(st, fn, o)
        return self.read_place(st, fid, fn, o)

    def const_operand(self, st, fn, o):
        tj = o["ty"]
        if "fn" in o:
            return FnV(o["fn"])
        if "v" in o:
            if tj.get("k") == "bool":
                return BoolV(bool(o["v"]), not bool(o["v"]))
            it = int_ty(tj)
            if it:
                return IntV.const(o["v"], it[0], it[1])
            return IntV.const(o["v"])
        if "promoted" in o:
            return self.eval_promoted(st, fn, o["promoted"])
        if "uneval" in o:
            c = self.crate.consts.get(o["uneval"])
            if c is not None:
                return self.const_item(st, c)
            return self.top_of(tj)
        if "static" in o:
            c = self.crate.consts.get(o["static"])
            if c is not None:
                v = self.const_item(st, c)
                if type(v) is SliceV:
                    return v  # reference to the static's storage
                return v
            return self.top_of(tj)
        if tj.get("k") == "tuple" and not tj["elems"]:
            return AggV("tuple", None, [])
        return self.top_of(tj)

    def const_item(self, st, c):
        tj = c["ty"]
        if tj.get("k") == "array":
            oid = self.const_array(st, c["path"], tj, c["value"])
            return SliceV(oid, st.heap[oid].len)
        if c["value"] is None:
            return self.top_of(tj)
        v = self.value_of_json(c["value"], tj)
        return v if v is not None else self.top_of(tj)

    def eval_promoted(self, st, fn, idx):
        """promoted bodies here are `_1 = <const>; _0 = &_1` (references to constants)"""
        pb = fn.f["promoted"][idx]
        vals = {}
        ret = TOP
        for b in pb["blocks"]:
            for s in b["stmts"]:
                if s["s"] != "assign":
                    continue
                rv = s["rv"]
                lhs = s["lhs"]
                if rv["r"] == "use":
                    a = rv["a"]
                    if a.get("o") == "const":
                        val = self.const_operand(st, fn, a)
                    else:
                        val = vals.get(a["l"], TOP)
                        if a["proj"]:
                            val = TOP
                elif rv["r"] == "ref":
                    val = vals.get(rv["p"]["l"], TOP)
                    if rv["p"]["proj"]:
                        val = TOP
                    if type(val) is not SliceV:
                        # reference to a scalar / aggregate constant: materialise a cell
                        oid = self.new_obj(st, Obj("cell", elem=val))
                        val = RefV(("obj", oid, ()))
                elif rv["r"] == "aggregate" and rv["agg"] == "array":
                    elems = [self.const_operand(st, fn, x) if x.get("o") == "const" else TOP for x in rv["ops"]]
                    oid = self.new_obj(st, Obj("slice", self.hull_values(elems, st) if elems else TOP,
                                               IntV.const(len(elems)), esize=self.size_of(rv["ety"]) or 1, values=elems))
                    val = SliceV(oid, IntV.const(len(elems)))
                elif rv["r"] == "aggregate" and rv["agg"] == "tuple":
                    val = AggV("tuple", None, [self.const_operand(st, fn, x) if x.get("o") == "const" else TOP for x in rv["ops"]])
                else:
                    val = TOP
                if not lhs["proj"]:
                    vals[lhs["l"]] = val
                    if lhs["l"] == 0:
                        ret = val
        return ret

    def target_of_place(self, st, fid, fn, p):
        """resolve a place to a storage target for taking references / writing"""
        base = ("loc", fid, p["l"], ())
        cur = base
        for e in p["proj"]:
            k = e["p"]
            if k == "deref":
                v = self.read_target(st, cur, fn) if cur is not None else None
                if type(v) is RefV:
                    cur = v.target
                elif type(v) is SliceV:
                    cur = ("obj", v.obj, ())
                else:
                    return None
            elif k == "field":
                if cur is None:
                    return None
                if cur[0] == "loc":
                    cur = ("loc", cur[1], cur[2], cur[3] + (e["i"],))
                else:
                    cur = ("obj", cur[1], cur[2] + (e["i"],))
            elif k == "downcast":
                if cur is None or cur[0] != "loc":
                    return None
                cur = ("loc", cur[1], cur[2], cur[3] + (("v", e["vi"]),))
            else:
                return None
        return cur

    def write_target(self, st, target, val, weak=False):
        if target is None:
            return
        rng = self.rng_fn(st)
        if target[0] == "loc":
            _, fid, l, proj = target
            if not proj:
                st.vals[(fid, l)] = val if not weak else self.join_val(st.vals.get((fid, l), val), val, rng)
                return
            cur = st.vals.get((fid, l))
            st.vals[(fid, l)] = self._set_in(cur, proj, val)
            return
        if target[0] == "obj":
            _, oid, proj = target
            o = st.heap.get(oid)
            if o is None:
                return
            o2 = o.copy()
            if o.kind == "struct":
                if not proj:
                    if type(val) is AggV and len(val.fields) == len(o.fields):
                        o2.fields = list(val.fields)
                    else:
                        o2.fields = [TOP] * len(o.fields)
                else:
                    if proj[0] < len(o2.fields):
                        o2.fields[proj[0]] = self._set_in(o2.fields[proj[0]], proj[1:], val) if len(proj) > 1 else val
            elif o.kind == "slice":
                if proj and proj[0] == "e":
                    self.log_elem(st, oid, o, proj[1], True)
                o2.elem = self.join_val(o.elem, val, rng) if proj or True else val
                o2.values = None
            elif o.kind == "cell":
                o2.elem = val
            st.heap[oid] = o2

    def log_elem(self, st, oid, o, idx, write):
        if not self._rec or type(idx) is not IntV:
            return
        rng = self.rng_fn(st)
        self.mem_log.append({"fn": self.stack[-1][0] if self.stack else "?", "site": "elem-ref", "obj": oid,
                             "off": norm(mul(idx, IntV.const(o.esize)), rng), "width": o.esize, "write": write,
                             "what": "element reference from a slice iterator", "loc": "-", "objname": o.name, "safe": True})

    def _set_in(self, cur, proj, val):
        if not proj:
            return val
        f = proj[0]
        if isinstance(f, tuple):  # downcast
            if type(cur) is EnumV and f[1] in cur.variants:
                d = dict(cur.variants)
                d[f[1]] = self._set_in(d[f[1]], proj[1:], val)
                return EnumV(cur.name, d)
            return TOP
        if type(cur) is AggV and f < len(cur.fields):
            fl = list(cur.fields)
            fl[f] = self._set_in(fl[f], proj[1:], val)
            return AggV(cur.kind, cur.name, fl, cur.variant)
        return TOP

    def write_place(self, st, fid, fn, p, val):
        if not p["proj"]:
            st.vals[(fid, p["l"])] = val
            return
        # element writes
        last = p["proj"][-1]
        if last["p"] in ("index", "cindex"):
            base = dict(p)
            base["proj"] = p["proj"][:-1]
            bv = self.read_place(st, fid, fn, dict(base, ty=""))
            if type(bv) is SliceV:
                self.write_target(st, ("obj", bv.obj, (0,)), val, weak=True)
                return
            if type(bv) is AggV and bv.kind == "array":
                idx = self.read_local(st, fid, last["l"], fn) if last["p"] == "index" else IntV.const(last["off"])
                rng = self.rng_fn(st)
                if type(idx) is IntV and idx.is_const() and 0 <= idx.nlo < len(bv.fields):
                    fl = list(bv.fields)
                    fl[idx.nlo] = val
                else:
                    fl = [self.join_val(x, val, rng) for x in bv.fields]
                tgt = self.target_of_place(st, fid, fn, base)
                self.write_target(st, tgt, AggV("array", None, fl))
                return
            return
        tgt = self.target_of_place(st, fid, fn, p)
        if tgt is not None:
            self.write_target(st, tgt, val)

    def havoc_ref(self, st, v, depth=0):
        """an unknown callee may write through this mutable reference"""
        t = type(v)
        if t is RefV and v.mut:
            cur = self.read_target(st, v.target, None)
            self.write_target(st, v.target, self.havoc_value(cur))
        elif t is SliceV and v.mut:
            o = st.heap.get(v.obj)
            if o is not None:
                o2 = o.copy()
                o2.elem = self.havoc_value(o.elem)
                o2.values = None
                st.heap[v.obj] = o2
        elif t is AggV and depth < 3:
            for f in v.fields:
                self.havoc_ref(st, f, depth + 1)

    def havoc_value(self, v):
        t = type(v)
        if t is IntV:
            return IntV.top(v.bits, v.signed)
        if t is BoolV:
            return BoolV()
        if t is AggV:
            return AggV(v.kind, v.name, [self.havoc_value(f) for f in v.fields], v.variant)
        return TOP

    # -- rvalues -------------------------------------------------------------
    def eval_rvalue(self, st, fid, fn, rv, lhs, stmt):
        r = rv["r"]
        rd = lambda o: self.read_operand(st, fid, fn, o)
        if r == "use":
            return rd(rv["a"])
        if r == "binop":
            return self.eval_binop(st, fn, rv["op"], rd(rv["a"]), rd(rv["b"]), rv["aty"], stmt)
        if r == "unop":
            a = rd(rv["a"])
            op = rv["op"]
            if op == "Not":
                if type(a) is BoolV:
                    return BoolV(a.f, a.t, ("not", a))
                if type(a) is IntV and a.is_const() and not a.signed:
                    return IntV.const((~a.nlo) & ((1 << a.bits) - 1), a.bits, a.signed)
                return self.top_of(rv["aty"])
            if op == "Neg":
                if type(a) is IntV:
                    return wrap(sub(IntV.const(0, a.bits, a.signed), a), a.bits, a.signed)
            if op == "PtrMetadata":
                if type(a) is SliceV:
                    return a.len.retype(64, False)
                if type(a) is RefV:
                    v = self.read_target(st, a.target, fn)
                    if type(v) is SliceV:
                        return v.len.retype(64, False)
                return IntV.top(64, False)
            return self.top_of_str(lhs["ty"])
        if r == "cast":
            return self.eval_cast(st, fn, rv, rd(rv["a"]), stmt)
        if r == "ref" or r == "rawptr":
            p = rv["p"]
            mut = rv.get("mut", False) or ("Mut" in rv.get("kind", ""))
            # reborrow of a slice/ptr value: &*x or &mut *x
            if p["proj"] and p["proj"][-1]["p"] == "deref":
                inner = dict(p)
                inner["proj"] = p["proj"][:-1]
                v = self.read_place(st, fid, fn, dict(inner, ty=""))
                if type(v) in (SliceV, PtrV, RefV):
                    if type(v) is SliceV and v.mut != mut:
                        return SliceV(v.obj, v.len, mut and v.mut, v.off)
                    return v
            # &x[i] / &mut x[i] -> pointer/ref to element (summary)
            if p["proj"] and p["proj"][-1]["p"] in ("index", "cindex"):
                base = dict(p)
                base["proj"] = p["proj"][:-1]
                bv = self.read_place(st, fid, fn, dict(base, ty=""))
                if type(bv) is SliceV:
                    o = st.heap.get(bv.obj)
                    if o is not None and o.kind == "slice":
                        last = p["proj"][-1]
                        idx = self.read_local(st, fid, last["l"], fn) if last["p"] == "index" else IntV.const(last["off"])
                        ev = self.index_value(st, bv, idx)
                        if type(ev) is SliceV:
                            return ev
                        return RefV(("obj", bv.obj, (0,)), mut)
                return TOP
            tgt = self.target_of_place(st, fid, fn, p)
            if tgt is None:
                return TOP
            # reference to a local holding an array aggregate: view as slice? keep RefV
            return RefV(tgt, mut)
        if r == "aggregate":
            ops = [rd(o) for o in rv["ops"]]
            agg = rv["agg"]
            if agg == "tuple":
                return AggV("tuple", None, ops)
            if agg == "array":
                return AggV("array", None, ops)
            if agg == "adt":
                adt = rv["adt"]
                kind = self.crate.adts.get(adt, {}).get("kind")
                if rv.get("vi", 0) != 0 or adt.endswith("Option") or kind == "Enum" or adt in ("std::option::Option", "core::option::Option"):
                    return EnumV(adt, {rv["vi"]: AggV("variant", rv["variant"], ops, rv["vi"])})
                if adt in ("std::result::Result", "core::result::Result"):
                    return EnumV(adt, {rv["vi"]: AggV("variant", rv["variant"], ops, rv["vi"])})
                return AggV("struct", adt, ops)
            if agg == "closure":
                return AggV("closure", rv["def"], ops)
            if agg == "rawptr":
                # (data ptr, metadata) -> fat pointer
                if type(ops[0]) is PtrV and type(ops[1]) is IntV:
                    o = st.heap.get(ops[0].obj)
                    return ops[0]
                return ops[0]
            return TOP
        if r == "discr":
            v = self.read_place(st, fid, fn, rv["p"])
            if type(v) is EnumV:
                ks = sorted(v.variants)
                iv = IntV(ks[0], ks[-1], 64, True)
                iv.tag = ("discr", mir.place_key(rv["p"]), fid, rv["p"])
                return iv
            if type(v) is AggV and v.variant is not None:
                return IntV.const(v.variant, 64, True)
            iv = IntV.top(64, True)
            iv.tag = ("discr", mir.place_key(rv["p"]), fid, rv["p"])
            return iv
        if r == "repeat":
            a = rd(rv["a"])
            n = rv.get("n")
            if n is not None and n <= 64:
                return AggV("array", None, [a] * n)
            return TOP
        return self.top_of_str(lhs["ty"])

    CMP = ("Lt", "Le", "Gt", "Ge", "Eq", "Ne")

    def cmp_result(self, st, op, a, b):
        rng = self.rng_fn(st)
        a = norm(a, rng)
        b = norm(b, rng)
        t = f = True
        if op == "Lt":
            if le_proved(a, b, rng, True):
                f = False
            elif le_proved(b, a, rng, False):
                t = False
        elif op == "Le":
            if le_proved(a, b, rng, False):
                f = False
            elif le_proved(b, a, rng, True):
                t = False
        elif op == "Gt":
            if le_proved(b, a, rng, True):
                f = False
            elif le_proved(a, b, rng, False):
                t = False
        elif op == "Ge":
            if le_proved(b, a, rng, False):
                f = False
            elif le_proved(a, b, rng, True):
                t = False
        elif op in ("Eq", "Ne"):
            eq = None
            ea, eb = a.exact(), b.exact()
            if ea is not None and eb is not None and ea == eb:
                eq = True
            elif a.vn == b.vn:
                eq = True
            elif le_proved(a, b, rng, True) or le_proved(b, a, rng, True):
                eq = False
            elif ea is not None and eb is not None and (ea - eb).is_const() and (ea - eb).c != 0:
                eq = False
            if eq is not None:
                if op == "Eq":
                    t, f = eq, not eq
                else:
                    t, f = not eq, eq
        return BoolV(t, f, ("cmp", op, a, b))

    def eval_binop(self, st, fn, op, a, b, aty, stmt):
        it = int_ty(aty)
        if op in self.CMP:
            if type(a) is IntV and type(b) is IntV:
                return self.cmp_result(st, op, a, b)
            if type(a) is BoolV and type(b) is BoolV and op in ("Eq", "Ne"):
                if (a.t != a.f) and (b.t != b.f):
                    eq = a.t == b.t
                    return BoolV(eq if op == "Eq" else not eq, (not eq) if op == "Eq" else eq)
                return BoolV()
            if type(a) is PtrV and type(b) is PtrV and a.obj == b.obj:
                return self.cmp_result(st, op, a.off, b.off)
            return BoolV()
        if type(a) is BoolV and type(b) is BoolV:
            if op == "BitAnd":
                return BoolV(a.t and b.t, a.f or b.f)
            if op == "BitOr":
                return BoolV(a.t or b.t, a.f and b.f)
            if op == "BitXor":
                return BoolV()
        if op == "Offset":
            if type(a) is PtrV and type(b) is IntV:
                return self.ptr_add(st, a, b)
            return TOP
        if type(a) is not IntV or type(b) is not IntV or it is None:
            if op.endswith("WithOverflow"):
                return AggV("tuple", None, [self.top_of(aty), BoolV()])
            return self.top_of(aty)
        bits, signed = it
        rng = self.rng_fn(st)
        a = norm(a, rng)
        b = norm(b, rng)
        base = op.replace("WithOverflow", "").replace("Unchecked", "")
        if base == "Add":
            r = add(a, b)
        elif base == "Sub":
            r = sub(a, b)
        elif base == "Mul":
            r = self.mul_sym(a, b, rng) or mul(a, b)
        elif base == "Div":
            r = div(a, b) if b.nlo > 0 else IntV.top(bits, signed)
        elif base == "Rem":
            r = rem(a, b) if b.nlo > 0 else IntV.top(bits, signed)
        elif base == "Shl":
            r = shl(a, b)
        elif base == "Shr":
            r = shr(a, b)
        elif base == "BitAnd":
            r = bitand(a, b)
        elif base == "BitOr":
            r = bitor(a, b)
        elif base == "BitXor":
            r = bitxor(a, b)
        else:
            return self.top_of(aty)
        r = norm(r.retype(bits, signed), rng)
        if op.endswith("WithOverflow"):
            ok = fits(r, bits, signed)
            lo, hi = ty_range(bits, signed)
            never = (r.nhi < lo or r.nlo > hi)
            ov = BoolV(not ok, not never)
            if ok:
                val = wrap(r, bits, signed)
            elif never:
                val = self._wrapped(r, bits, signed)
            else:
                # rustc reads `.0` only on the success edge of the Assert(Overflow) that follows: there the value is the
                # mathematical result, inside the type's range
                val = r.with_(nlo=max(r.nlo, lo), nhi=min(r.nhi, hi))
            return AggV("tuple", None, [val, ov])
        if base == "Shl" and not fits(r, bits, signed):
            return IntV.top(bits, signed)
        if not fits(r, bits, signed):
            return self._wrapped(r, bits, signed)
        return r

    @staticmethod
    def _wrapped(r, bits, signed):
        """result of wrapping arithmetic when the mathematical result may not fit"""
        return IntV.top(bits, signed)

    def eval_cast(self, st, fn, rv, a, stmt):
        kind = rv["kind"]
        to = rv["to"]
        frm = rv["from"]
        tt = int_ty(to)
        ft = int_ty(frm)
        if kind == "IntToInt" and tt:
            bits, signed = tt
            if type(a) is BoolV:
                lo = 0 if a.f else 1
                hi = 1 if a.t else 0
                return IntV(lo, hi, bits, signed)
            if type(a) is not IntV:
                return IntV.top(bits, signed)
            a = norm(a, self.rng_fn(st))
            ok = fits(a, bits, signed)
            if ft:
                flo, fhi = ty_range(ft[0], ft[1])
                tlo, thi = ty_range(bits, signed)
                if flo < tlo or fhi > thi:
                    # narrowing (or sign-changing) cast: obligation "value preserved"
                    fp = "%s->%s#%d" % (frm["s"], to["s"], self._site_index(fn, stmt))
                    self.oblige("cast", fn, fp, ok, mir.stmt_loc(stmt),
                                "cast %s -> %s preserves the value" % (frm["s"], to["s"]),
                                None if ok else {"value": repr(a)})
            if ok:
                return a.retype(bits, signed)
            # truncation: x as uN == x % 2^N for non-negative x
            if a.nlo >= 0 and not signed:
                return rem(a, IntV.const(1 << bits, 128, False)).retype(bits, signed) if False else IntV.top(bits, signed)
            return IntV.top(bits, signed)
        if kind.startswith("PointerCoercion(Unsize"):
            # &[T; N] -> &[T]
            if type(a) is SliceV:
                return a
            if type(a) is RefV:
                v = self.read_target(st, a.target, fn)
                if type(v) is SliceV:
                    return SliceV(v.obj, v.len, a.mut, v.off)
                if type(v) is AggV and v.kind == "array":
                    n = len(v.fields)
                    oid = self.new_obj(st, Obj("slice", self.hull_values(list(v.fields), st) if n else TOP,
                                               IntV.const(n), esize=self.size_of(frm["to"]["of"]) or 1 if frm.get("to", {}).get("k") == "array" else 1,
                                               values=list(v.fields)))
                    return SliceV(oid, IntV.const(n), a.mut)
            return TOP
        if kind in ("PtrToPtr", "PointerCoercion(MutToConstPointer, Implicit)", "PointerCoercion(MutToConstPointer, AsCast)") or kind.startswith("PointerCoercion(MutToConst"):
            if type(a) is PtrV:
                es = self.size_of(to["to"]) if to.get("k") == "ptr" else None
                return PtrV(a.obj, a.off, es if es else a.esize, a.mut and to.get("mut", False))
            if type(a) is SliceV:
                # *const [T] -> *const T
                o = st.heap.get(a.obj)
                if o is not None and to.get("k") == "ptr":
                    es = self.size_of(to["to"])
                    off = mul(a.off, IntV.const(o.esize)) if a.off is not None else IntV.const(0)
                    return PtrV(a.obj, off, es or o.esize, a.mut)
            if type(a) is RefV:
                return a
            return TOP
        if kind == "Transmute":
            return a if type(a) in (PtrV, RefV, SliceV) else self.top_of(to)
        if tt:
            return IntV.top(tt[0], tt[1])
        return self.top_of(to)

    def _site_index(self, fn, stmt):
        """ordinal of this narrowing-cast statement among the function's cast statements (stable under line moves)"""
        idx = getattr(fn, "_cast_index", None)
        if idx is None:
            idx = {}
            n = 0
            for b in fn.blocks:
                for s in b["stmts"]:
                    if s["s"] == "assign" and s["rv"]["r"] == "cast" and s["rv"]["kind"] == "IntToInt":
                        idx[id(s)] = n
                        n += 1
            fn._cast_index = idx
        return idx.get(id(stmt), -1)

    def ptr_add(self, st, p, n):
        off = add(p.off, mul(n, IntV.const(p.esize or 1)))
        return PtrV(p.obj, norm(off, self.rng_fn(st)), p.esize, p.mut)

    # -- function bodies -------------------------------------------------------
    def run_fn(self, fn, args, st, depth=0):
        """analyse fn with abstract args in state st; returns (ret value or None, out state or None)"""
        self.fid += 1
        fid = self.fid
        self.visited_fns.add(fn.key)
        for i, a in enumerate(args):
            st.vals[(fid, i + 1)] = a
        cfg = fn.cfg
        # back-edge targets
        heads = getattr(fn, "_heads", None)
        if heads is None:
            heads = set()
            for b in cfg.reach:
                for s in cfg.succ[b]:
                    if cfg.dominates(s, b):
                        heads.add(s)
            fn._heads = heads
            fn._rpo_index = {b: i for i, b in enumerate(cfg.rpo)}
        rpoi = fn._rpo_index
        thresholds = getattr(fn, "_thresholds", None)
        if thresholds is None:
            thresholds = self.collect_thresholds(fn)
            fn._thresholds = thresholds
        inductions = getattr(fn, "_inductions", None)
        if inductions is None:
            inductions = self.find_inductions(fn)
            fn._inductions = inductions
        ind_atoms = {}      # (head, local) -> atom
        inst = {0: st}
        visits = {}
        work = {0}
        ret_val = None
        ret_state = None
        iters = 0
        while work:
            iters += 1
            if iters > 4000:
                raise Unsupported("fixpoint did not converge in %s" % fn.key)
            b = min(work, key=lambda x: rpoi.get(x, 1 << 30))
            work.discard(b)
            s_in = inst[b]
            outs = self.transfer_block(fn, fid, b, s_in.copy(), depth)
            for (succ, s_out) in outs:
                if succ == "return":
                    rv = s_out.vals.get((fid, 0))
                    if rv is None:
                        rv = self.top_of(fn.locals[0]["ty"])
                    if ret_state is None:
                        ret_state, ret_val = s_out, rv
                    else:
                        ret_state = self.join_state(ret_state, s_out)
                        ret_val = self.join_val(ret_val, rv, self.rng_fn(ret_state))
                    continue
                old = inst.get(succ)
                if succ in inductions:
                    self.induction_edge(fn, fid, succ, inductions[succ], s_out, old, ind_atoms, b)
                if old is None:
                    inst[succ] = s_out
                    work.add(succ)
                    continue
                if self.leq_state(s_out, old):
                    continue
                if succ in heads:
                    visits[succ] = visits.get(succ, 0) + 1
                    if visits[succ] > self.widen_after:
                        new = self.join_state(old, self.join_state(old, s_out), widen=True, thresholds=thresholds)
                    else:
                        new = self.join_state(old, s_out)
                else:
                    new = self.join_state(old, s_out)
                inst[succ] = new
                work.add(succ)
        # final pass: obligations are recorded from the stable input states only
        self.recording = True
        self._record_pass(fn, fid, inst, depth)
        if ret_state is not None:
            cb = self.on_return.get(fn.key)
            if cb is not None:
                cb(self, ret_state, ret_val, fid, fn)
            # drop callee frame
            for k in [k for k in ret_state.vals if k[0] == fid and k[1] != 0]:
                pass
        return ret_val, ret_state, fid

    # -- counting while-loops ---------------------------------------------------------------------------------
    def find_inductions(self, fn):
        """{loop head: [(local, step)]} for `while i < B { ..; i += c }` loops: the local has exactly one assignment in the
        loop, i = i + c (c > 0, possibly through the checked-add lowering), and the loop is left on !(i < B) with B not
        assigned in the loop.  Such a local is given a loop atom like the item of a range loop."""
        out = {}
        cfg = fn.cfg
        try:
            lo = cfg.loops()
        except Exception:
            return out

        def root_local(blk, upto, o):
            """the user local an operand copies, following temporaries defined earlier in the same block (or, when a call
            such as `self.width()` splits the comparison, in the chain of unique predecessor blocks)"""
            seen = 0
            while isinstance(o, dict) and o.get("o") in ("copy", "move") and not o["proj"] and seen < 8:
                seen += 1
                l = o["l"]
                d = None
                cur, lim, hops = blk, upto, 0
                while True:
                    for s_ in cur["stmts"][:lim]:
                        if s_["s"] == "assign" and s_["lhs"]["l"] == l and not s_["lhs"]["proj"]:
                            d = s_
                    if d is not None or fn.locals[l].get("user") or hops >= 3:
                        break
                    ps = [p_ for p_ in cfg.pred[cur["i"]] if not fn.blocks[p_]["cleanup"]]
                    if len(ps) != 1 or (fn.blocks[ps[0]]["term"].get("dest") or {}).get("l") == l:
                        break
                    cur, lim, hops = fn.blocks[ps[0]], None, hops + 1
                if d is None or d["rv"]["r"] != "use" or d["rv"]["a"].get("proj"):
                    return l
                o = d["rv"]["a"]
            return None
        for h, body in lo.items():
            assigns = {}
            for b in body:
                blk = fn.blocks[b]
                if blk["cleanup"]:
                    continue
                for i_, s_ in enumerate(blk["stmts"]):
                    if s_["s"] == "assign" and not s_["lhs"]["proj"]:
                        assigns.setdefault(s_["lhs"]["l"], []).append((b, i_, s_))
                t = blk["term"]
                if t["t"] == "call" and not t["dest"]["proj"]:
                    assigns.setdefault(t["dest"]["l"], []).append((b, None, t))
            # exit tests  d = Lt(i, B); switch d -> [false: exit]
            tests = []
            for b in body:
                blk = fn.blocks[b]
                t = blk["term"]
                if t["t"] != "switch" or t["discr"].get("o") not in ("copy", "move") or t["discr"]["proj"]:
                    continue
                arms = dict((v, tg) for v, tg in t["arms"])
                if 0 not in arms or arms[0] in body or t["otherwise"] not in body:
                    continue
                d = t["discr"]["l"]
                for i_, s_ in enumerate(blk["stmts"]):
                    if s_["s"] == "assign" and s_["lhs"]["l"] == d and not s_["lhs"]["proj"] and s_["rv"]["r"] == "binop" and s_["rv"]["op"] == "Lt":
                        il = root_local(blk, i_, s_["rv"]["a"])
                        if il is not None and not fn.locals[il].get("user"):
                            # `i + c < B`: the compared temporary is i plus a constant (checked-add lowering included)
                            for b3 in body:
                                for s3 in fn.blocks[b3]["stmts"]:
                                    if s3["s"] == "assign" and s3["lhs"]["l"] == il and not s3["lhs"]["proj"] and s3["rv"]["r"] == "use" \
                                            and [e.get("p") for e in s3["rv"]["a"].get("proj", [])] == ["field"]:
                                        tl3 = s3["rv"]["a"]["l"]
                                        for b4 in body:
                                            for i4, s4 in enumerate(fn.blocks[b4]["stmts"]):
                                                if s4["s"] == "assign" and s4["lhs"]["l"] == tl3 and s4["rv"]["r"] == "binop" and \
                                                        s4["rv"]["op"] == "AddWithOverflow" and s4["rv"]["b"].get("o") == "const":
                                                    il = root_local(fn.blocks[b4], i4, s4["rv"]["a"])
                                    elif s3["s"] == "assign" and s3["lhs"]["l"] == il and not s3["lhs"]["proj"] and s3["rv"]["r"] == "binop" \
                                            and s3["rv"]["op"] in ("Add", "AddUnchecked") and s3["rv"]["b"].get("o") == "const":
                                        il = root_local(fn.blocks[b3], fn.blocks[b3]["stmts"].index(s3), s3["rv"]["a"])
                        bo = s_["rv"]["b"]
                        bl = root_local(blk, i_, bo) if bo.get("o") in ("copy", "move") else "const"
                        if il is not None and bl is not None:
                            tests.append((il, bl))
            for il, bl in tests:
                if bl != "const" and bl in assigns and fn.locals[bl].get("user"):
                    continue          # the bound changes in the loop
                defs = assigns.get(il, [])
                if len(defs) != 1 or defs[0][1] is None:
                    continue
                b, i_, s_ = defs[0]
                blk = fn.blocks[b]
                rv = s_["rv"]
                step = None
                if rv["r"] == "binop" and rv["op"] in ("Add", "AddUnchecked") and rv["b"].get("o") == "const" and root_local(blk, i_, rv["a"]) == il:
                    step = rv["b"].get("v")
                elif rv["r"] == "use" and rv["a"].get("o") in ("move", "copy") and [e.get("p") for e in rv["a"]["proj"]] == ["field"] \
                        and rv["a"]["proj"][0].get("i") == 0:
                    # i = move (t.0) with t = AddWithOverflow(i, c) defined in a predecessor block
                    tl = rv["a"]["l"]
                    for (b2, i2, s2) in assigns.get(tl, []):
                        if i2 is not None and s2["rv"]["r"] == "binop" and s2["rv"]["op"] == "AddWithOverflow" and \
                                s2["rv"]["b"].get("o") == "const" and root_local(fn.blocks[b2], i2, s2["rv"]["a"]) == il:
                            step = s2["rv"]["b"].get("v")
                if isinstance(step, int) and step > 0:
                    out.setdefault(h, []).append((il, step))
        return out

    def induction_edge(self, fn, fid, head, inds, s_out, old, ind_atoms, pred):
        """entry edge: the counter becomes a loop atom A >= init; back edge: an incoming A + step is A again."""
        for (l, step) in inds:
            v = s_out.vals.get((fid, l))
            if type(v) is not IntV:
                continue
            key = (head, l)
            if old is None or key not in ind_atoms:
                if key in ind_atoms:
                    continue
                ex = v.exact() if v.slo is not None else None
                if ex is None:
                    continue
                a = self.new_atom("w@%s:bb%d:_%d" % (fn.key.split("::")[-1], head, l), -(1 << 70), 1 << 70)
                self.facts.append(Aff.atom(a) - ex)              # A >= init on every visit of the head (step > 0)
                self.loop_atom_info[a] = {"lo": ex, "hi": None, "site": "while:bb%d" % head, "step": step}
                self.induction_atoms[a] = step
                ind_atoms[key] = a
                hi = ty_range(v.bits, v.signed)[1]
                s_out.arng[a] = (v.nlo, hi)
                af = Aff.atom(a)
                s_out.vals[(fid, l)] = IntV(v.nlo, hi, v.bits, v.signed, af, af)
            else:
                a = ind_atoms[key]
                ex = v.exact() if v.slo is not None else None
                if ex is not None and ex == Aff.atom(a) + step:
                    ov = old.vals.get((fid, l))
                    if type(ov) is IntV:
                        s_out.vals[(fid, l)] = ov
                        if a in old.arng:
                            s_out.arng[a] = old.arng[a]

    def collect_thresholds(self, fn):
        ts = {0, 1}
        for b in fn.blocks:
            for s in b["stmts"]:
                if s["s"] == "assign":
                    rv = s["rv"]
                    for k in ("a", "b"):
                        o = rv.get(k)
                        if isinstance(o, dict) and o.get("o") == "const" and isinstance(o.get("v"), int):
                            ts.add(o["v"])
                            ts.add(o["v"] - 1)
                            ts.add(o["v"] + 1)
        return sorted(ts)

    recording = False

    def _record_pass(self, fn, fid, inst, depth):
        """re-run each reached block once on its stable input, recording obligations"""
        prev = self._rec
        self._rec = True
        try:
            for b, s_in in inst.items():
                self.transfer_block(fn, fid, b, s_in.copy(), depth, record=True)
        finally:
            self._rec = prev
        # sites never reached in this context are discharged here (dead code in this context)
        for blk in fn.blocks:
            if blk["cleanup"] or blk["i"] in inst or blk["i"] not in fn.cfg.reach:
                continue
            t = blk["term"]
            if t["t"] == "assert":
                self.oblige("assert", fn, "%s#%d" % (t["kind"], self._assert_index(fn, blk["i"])), True,
                            mir.stmt_loc(t), "MIR assert %s cannot fail" % t["kind"])
            elif t["t"] == "call" and (t["target"] is None or self.is_panic_callee(t.get("callee"))):
                msg = self.panic_message(fn, t)
                self.oblige("panic", fn, "%s#%d" % (msg[:80], self._panic_index(fn, blk["i"])), True,
                            mir.stmt_loc(t), "diverging call %s is unreachable" % (t.get("callee") or "?"))

    _rec = False

    def transfer_block(self, fn, fid, b, st, depth, record=False):
        blk = fn.blocks[b]
        for s in blk["stmts"]:
            if s["s"] == "assign":
                if record:
                    self.check_raw_derefs(st, fid, fn, places_of(s), s, record)
                val = self.eval_rvalue_rec(st, fid, fn, s["rv"], s["lhs"], s, record)
                self.write_place(st, fid, fn, s["lhs"], val)
            elif s["s"] == "setdiscr":
                pass
        t = blk["term"]
        k = t["t"]
        if record and k in ("call", "switch", "assert"):
            self.check_raw_derefs(st, fid, fn, places_of(t), t, record)
        if k == "goto":
            return [(t["target"], st)]
        if k == "return":
            return [("return", st)]
        if k == "unreachable":
            return []
        if k == "drop":
            return [(t["target"], st)]
        if k == "switch":
            return self.do_switch(st, fid, fn, t)
        if k == "assert":
            return self.do_assert(st, fid, fn, b, t, record)
        if k == "call":
            return self.do_call(st, fid, fn, b, t, depth, record)
        return []

    def eval_rvalue_rec(self, st, fid, fn, rv, lhs, s, record):
        if not record:
            # casts record obligations: suppress outside the recording pass
            saved = self.oblige
            self.oblige = lambda *a, **k: None
            try:
                return self.eval_rvalue(st, fid, fn, rv, lhs, s)
            finally:
                self.oblige = saved
        return self.eval_rvalue(st, fid, fn, rv, lhs, s)

    def do_switch(self, st, fid, fn, t):
        d = self.read_operand(st, fid, fn, t["discr"])
        outs = []
        if type(d) is BoolV:
            # arms: value 0 -> false target; otherwise true
            for val, tgt in t["arms"]:
                truth = bool(val)
                s2 = st.copy()
                if self.assume_bool(s2, d, truth):
                    outs.append((tgt, s2))
            # otherwise: values not listed
            listed = {bool(v) for v, _ in t["arms"]}
            for truth in (True, False):
                if truth not in listed:
                    s2 = st.copy()
                    if self.assume_bool(s2, d, truth):
                        outs.append((t["otherwise"], s2))
            return outs
        if type(d) is IntV:
            tag = d.tag
            listed = []
            for val, tgt in t["arms"]:
                listed.append(val)
                if val < d.nlo or val > d.nhi:
                    continue
                s2 = st.copy()
                ok = True
                if tag and tag[0] == "discr":
                    ok = self.filter_variant(s2, tag, fn, keep={val})
                else:
                    ok = self.assume_cmp(s2, "Eq", d, IntV.const(val, d.bits, d.signed))
                if ok:
                    outs.append((tgt, s2))
            # otherwise
            s2 = st.copy()
            ok = True
            if tag and tag[0] == "discr":
                ok = self.filter_variant(s2, tag, fn, drop=set(listed))
            else:
                if d.nhi - d.nlo < 16 and all(x in listed for x in range(d.nlo, d.nhi + 1)):
                    ok = False
                else:
                    for val in listed:
                        if ok and (val == d.nlo or val == d.nhi):
                            ok = self.assume_cmp(s2, "Ne", self.find_vn(s2, d), IntV.const(val, d.bits, d.signed))
            if ok:
                outs.append((t["otherwise"], s2))
            return outs
        # unknown discriminant: all successors
        seen = set()
        for _, tgt in t["arms"]:
            if tgt not in seen:
                seen.add(tgt)
                outs.append((tgt, st.copy()))
        if t["otherwise"] not in seen:
            outs.append((t["otherwise"], st.copy()))
        return outs

    def filter_variant(self, st, tag, fn, keep=None, drop=None):
        _, pk, fid, place = tag
        v = self.read_place(st, fid, fn, place)
        if type(v) is not EnumV:
            return True
        d = {k: x for k, x in v.variants.items() if (keep is None or k in keep) and (drop is None or k not in drop)}
        if not d:
            return False
        if len(d) != len(v.variants):
            self.write_place(st, fid, fn, place, EnumV(v.name, d))
        return True

    def do_assert(self, st, fid, fn, b, t, record):
        c = self.read_operand(st, fid, fn, t["cond"])
        exp = t["expected"]
        ok = False
        if type(c) is BoolV:
            ok = (c.t and not c.f) if exp else (c.f and not c.t)
        if record:
            fp = "%s#%d" % (t["kind"], self._assert_index(fn, b))
            self.oblige("assert", fn, fp, ok, mir.stmt_loc(t), "MIR assert %s cannot fail" % t["kind"],
                        None if ok else {"cond": repr(c), "ops": [repr(self.read_operand(st, fid, fn, o)) for o in t["ops"]]})
        s2 = st
        if type(c) is BoolV:
            if not self.assume_bool(s2, c, exp):
                return []
        return [(t["target"], s2)]

    def _assert_index(self, fn, b):
        idx = getattr(fn, "_assert_idx", None)
        if idx is None:
            idx = {}
            cnt = {}
            for blk in fn.blocks:
                t = blk["term"]
                if t["t"] == "assert" and not blk["cleanup"]:
                    k = t["kind"]
                    idx[blk["i"]] = cnt.get(k, 0)
                    cnt[k] = cnt.get(k, 0) + 1
            fn._assert_idx = idx
        return idx.get(b, -1)

    # -- calls -----------------------------------------------------------------
    PANICS = ("core::panicking::", "std::rt::begin_panic", "std::rt::panic_fmt", "core::option::unwrap_failed",
              "core::result::unwrap_failed", "core::option::expect_failed", "core::slice::index::slice_",
              "core::str::slice_error_fail", "alloc::raw_vec::capacity_overflow", "alloc::alloc::handle_alloc_error")

    def is_panic_callee(self, callee):
        return callee is not None and any(callee.startswith(p) for p in self.PANICS)

    def panic_message(self, fn, t):
        for a in t["args"]:
            if a.get("o") == "const" and "strlit" in a:
                return a["strlit"].strip('"')
        # format-args panics: the Arguments value is built by a call in a preceding block
        locs = {a["l"] for a in t["args"] if a.get("o") in ("copy", "move") and not a["proj"]}
        if locs:
            for blk in fn.blocks:
                tt = blk["term"]
                if tt["t"] == "call" and tt["dest"]["l"] in locs and not tt["dest"]["proj"]:
                    for a in tt["args"]:
                        if a.get("o") == "const" and "strlit" in a:
                            return a["strlit"].strip('"')
        return t.get("callee", "?")

    def do_call(self, st, fid, fn, b, t, depth, record):
        callee = t.get("callee")
        args = [self.read_operand(st, fid, fn, a) for a in t["args"]]
        if t["target"] is None or self.is_panic_callee(callee):
            if record and (self.is_panic_callee(callee) or t["target"] is None):
                msg = self.panic_message(fn, t)
                idx = self._panic_index(fn, b)
                self.oblige("panic", fn, "%s#%d" % (msg[:80], idx), False, mir.stmt_loc(t),
                            "diverging call %s is unreachable" % (callee or "?"), {"message": msg})
            return []
        res = self.call_value(st, fid, fn, b, t, callee, args, depth, record)
        if res is None:
            return []   # callee diverges in this context
        ret, st2 = res
        self.write_place(st2, fid, fn, t["dest"], ret)
        return [(t["target"], st2)]

    def _panic_index(self, fn, b):
        idx = getattr(fn, "_panic_idx", None)
        if idx is None:
            idx = {}
            cnt = {}
            for blk in fn.blocks:
                t = blk["term"]
                if t["t"] == "call" and not blk["cleanup"] and (t["target"] is None or self.is_panic_callee(t.get("callee"))):
                    k = self.panic_message(fn, t)[:80]
                    idx[blk["i"]] = cnt.get(k, 0)
                    cnt[k] = cnt.get(k, 0) + 1
            fn._panic_idx = idx
        return idx.get(b, -1)

    def call_value(self, st, fid, fn, b, t, callee, args, depth, record):
        """returns (ret, state) or None if the call never returns"""
        resolved = t.get("resolved") or callee
        # 1. summaries (by role, registered by the rule set)
        for name in (resolved, callee):
            h = self.summaries.get(name)
            if h is not None:
                r = h(self, st, fid, fn, t, args, record)
                if r is not NotImplemented:
                    return r
        # 2. library models
        r = self.models.call(self, st, fid, fn, t, callee, resolved, args, record)
        if r is not NotImplemented:
            return r
        # 3. crate-local bodies (incl. closures through Fn* traits)
        target_fn = None
        call_args = args
        if resolved in self.crate.fns and t.get("resolved_local", t.get("callee_local")):
            target_fn = self.crate.fns[resolved]
            if callee in ("std::ops::Fn::call", "std::ops::FnMut::call_mut", "std::ops::FnOnce::call_once",
                          "core::ops::Fn::call", "core::ops::FnMut::call_mut", "core::ops::FnOnce::call_once") and target_fn.f["kind"] == "Closure":
                tup = args[1] if len(args) > 1 else AggV("tuple", None, [])
                spread = list(tup.fields) if type(tup) is AggV else [TOP] * (target_fn.argc - 1)
                env = args[0]
                # closure body expects &env / &mut env / env depending on kind
                envty = target_fn.locals[1]["ty"]
                if envty.get("k") == "ref" and type(env) is AggV:
                    oid = self.new_obj(st, Obj("cell", elem=env))
                    env = RefV(("obj", oid, ()))
                elif envty.get("k") != "ref" and type(env) is RefV:
                    env = self.read_target(st, env.target, fn)
                call_args = [env] + spread
        elif callee is None:
            # indirect call through a fn value
            fv = self.read_operand(st, fid, fn, t["fnop"])
            if type(fv) is FnV and fv.path in self.crate.fns:
                target_fn = self.crate.fns[fv.path]
        if target_fn is not None and depth < self.max_depth and not any(k == target_fn.key for k, _ in self.stack):
            self.stack.append((target_fn.key, mir.stmt_loc(t)))
            try:
                ret, st2, cfid = self.run_fn(target_fn, call_args, st.copy(), depth + 1)
            finally:
                self.stack.pop()
            if st2 is None:
                return None
            # remove callee frame locals
            for k in [k for k in st2.vals if k[0] == cfid]:
                del st2.vals[k]
            return ret, st2
        # 4. opaque
        self.unmodelled[resolved or callee or "?"] = self.unmodelled.get(resolved or callee or "?", 0) + 1
        for a in args:
            self.havoc_ref(st, a)
        return self.top_of_str(t["dest"]["ty"]), st
