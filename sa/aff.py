"""Affine expressions over integer atoms and symbolic intervals (SymInterval domain).

An atom is an unknown integer with a numeric range (kept by the analysis
state, so that branches can refine it).  Aff = c0 + sum ci*atom_i, exact
integer arithmetic.  IntV is an interval with numeric bounds (always present)
and optional affine bounds.
"""

INF = float("inf")


class Aff:
    __slots__ = ("c", "t", "_h")

    def __init__(self, c=0, t=None):
        self.c = c
        if t:
            self.t = tuple(sorted((a, k) for a, k in (t.items() if isinstance(t, dict) else t) if k != 0))
        else:
            self.t = ()
        self._h = None

    @staticmethod
    def atom(a, k=1):
        return Aff(0, {a: k})

    def is_const(self):
        return not self.t

    def single(self):
        """(atom, coef, const) if exactly one atom"""
        if len(self.t) == 1:
            return self.t[0][0], self.t[0][1], self.c
        return None

    def __eq__(self, o):
        return isinstance(o, Aff) and self.c == o.c and self.t == o.t

    def __hash__(self):
        if self._h is None:
            self._h = hash((self.c, self.t))
        return self._h

    def __add__(self, o):
        if isinstance(o, int):
            return Aff(self.c + o, self.t)
        d = dict(self.t)
        for a, k in o.t:
            d[a] = d.get(a, 0) + k
        return Aff(self.c + o.c, d)

    def __neg__(self):
        return Aff(-self.c, [(a, -k) for a, k in self.t])

    def __sub__(self, o):
        if isinstance(o, int):
            return Aff(self.c - o, self.t)
        return self + (-o)

    def scale(self, k):
        if k == 0:
            return Aff(0)
        return Aff(self.c * k, [(a, c * k) for a, c in self.t])

    def div_exact(self, k):
        """floor(self / k) when every atom coefficient is divisible by k > 0 (atoms are integers)"""
        if k <= 0:
            return None
        for _, c in self.t:
            if c % k != 0:
                return None
        return Aff(self.c // k, [(a, c // k) for a, c in self.t])

    def rem_exact(self, k):
        if k <= 0:
            return None
        for _, c in self.t:
            if c % k != 0:
                return None
        return Aff(self.c % k)

    def lo(self, rng):
        """lower bound over the atom box; rng(atom) -> (lo, hi).  rng.facts (optional) is a list of
        affine forms known to be >= 0: self >= (self - f).lo for every such f."""
        best = self._lo(rng)
        facts = getattr(rng, "facts", None)
        if facts and self.t:
            mine = dict(self.t)
            for f in facts:
                ks = {1}
                for a, cf in f.t:
                    ce = mine.get(a)
                    if ce is not None and ce % cf == 0 and ce // cf > 0:
                        ks.add(ce // cf)       # multiple of the fact that eliminates atom a
                if len(ks) == 1 and not any(a in mine for a, _ in f.t):
                    continue
                for k in ks:
                    v = (self - f.scale(k))._lo(rng)
                    if v > best:
                        best = v
        return best

    def lo2(self, rng):
        """like lo(), but may combine two facts"""
        best = self.lo(rng)
        facts = getattr(rng, "facts", None)
        if not facts or not self.t:
            return best
        mine = dict(self.t)
        for f in facts:
            ks = set()
            for a, cf in f.t:
                ce = mine.get(a)
                if ce is not None and ce % cf == 0 and ce // cf > 0:
                    ks.add(ce // cf)
            for k in ks:
                v = (self - f.scale(k)).lo(rng)
                if v > best:
                    best = v
        return best

    def hi(self, rng):
        best = self._hi(rng)
        facts = getattr(rng, "facts", None)
        if facts and self.t:
            mine = dict(self.t)
            for f in facts:
                ks = {1}
                for a, cf in f.t:
                    ce = mine.get(a)
                    if ce is not None and (-ce) % cf == 0 and (-ce) // cf > 0:
                        ks.add((-ce) // cf)
                if len(ks) == 1 and not any(a in mine for a, _ in f.t):
                    continue
                for k in ks:
                    v = (self + f.scale(k))._hi(rng)
                    if v < best:
                        best = v
        return best

    def _lo(self, rng):
        v = self.c
        for a, k in self.t:
            l, h = rng(a)
            x = l if k > 0 else h
            if x in (INF, -INF):
                return -INF
            v += k * x
        return v

    def _hi(self, rng):
        v = self.c
        for a, k in self.t:
            l, h = rng(a)
            x = h if k > 0 else l
            if x in (INF, -INF):
                return INF
            v += k * x
        return v

    def __repr__(self):
        if not self.t:
            return str(self.c)
        s = ""
        for a, k in self.t:
            if k == 1:
                s += "+%s" % a
            elif k == -1:
                s += "-%s" % a
            else:
                s += "%+d*%s" % (k, a)
        if self.c:
            s += "%+d" % self.c
        return s.lstrip("+")


_vn = [0]


def fresh_vn():
    _vn[0] += 1
    return _vn[0]


def ty_range(bits, signed):
    if signed:
        return -(1 << (bits - 1)), (1 << (bits - 1)) - 1
    return 0, (1 << bits) - 1


class IntV:
    """integer abstract value: numeric interval [nlo, nhi] (python ints) plus optional
    affine bounds slo <= v <= shi.  exact() when slo == shi."""
    __slots__ = ("nlo", "nhi", "slo", "shi", "vn", "bits", "signed", "tag")

    def __init__(self, nlo, nhi, bits=64, signed=False, slo=None, shi=None, vn=None, tag=None):
        self.nlo = nlo
        self.nhi = nhi
        self.slo = slo
        self.shi = shi
        self.bits = bits
        self.signed = signed
        self.vn = vn if vn is not None else fresh_vn()
        self.tag = tag

    @staticmethod
    def const(v, bits=64, signed=False):
        a = Aff(v)
        return IntV(v, v, bits, signed, a, a)

    @staticmethod
    def top(bits=64, signed=False):
        lo, hi = ty_range(bits, signed)
        return IntV(lo, hi, bits, signed)

    def is_const(self):
        return self.nlo == self.nhi

    def exact(self):
        if self.slo is not None and self.shi is not None and self.slo == self.shi:
            return self.slo
        if self.nlo == self.nhi:
            return Aff(self.nlo)
        return None

    def with_(self, **kw):
        d = dict(nlo=self.nlo, nhi=self.nhi, bits=self.bits, signed=self.signed, slo=self.slo, shi=self.shi,
                 vn=self.vn, tag=self.tag)
        d.update(kw)
        return IntV(**d)

    def retype(self, bits, signed):
        return self.with_(bits=bits, signed=signed)

    def __repr__(self):
        s = "[%s, %s]" % (self.nlo, self.nhi)
        if self.slo is not None or self.shi is not None:
            if self.slo is not None and self.slo == self.shi:
                s += "{=%r}" % self.slo
            else:
                s += "{%r..%r}" % (self.slo, self.shi)
        return s


def norm(v, rng):
    """tighten numeric bounds from symbolic ones (and drop useless symbolic bounds)"""
    nlo, nhi = v.nlo, v.nhi
    if v.slo is not None:
        l = v.slo.lo(rng)
        if l != -INF and l > nlo:
            nlo = l
    if v.shi is not None:
        h = v.shi.hi(rng)
        if h != INF and h < nhi:
            nhi = h
    if nlo != v.nlo or nhi != v.nhi:
        return v.with_(nlo=nlo, nhi=nhi)
    return v


def le_proved(a, b, rng, strict=False):
    """is a <= b (or a < b) for every concretisation?"""
    d = 1 if strict else 0
    if a.nhi + d <= b.nlo:
        return True
    if a.shi is not None and b.slo is not None:
        if (b.slo - a.shi).lo(rng) >= d:
            return True
    if a.shi is not None:
        h = a.shi.hi(rng)
        if h != INF and h + d <= b.nlo:
            return True
    if b.slo is not None:
        l = b.slo.lo(rng)
        if l != -INF and a.nhi + d <= l:
            return True
    # last resort: two facts combined
    if a.shi is not None and b.slo is not None:
        if (b.slo - a.shi).lo2(rng) >= d:
            return True
    if a.shi is not None and b.slo is None and b.nlo == b.nhi:
        if (Aff(b.nlo) - a.shi).lo2(rng) >= d:
            return True
    return False


def join(a, b, rng):
    if a is b:
        return a
    nlo = min(a.nlo, b.nlo)
    nhi = max(a.nhi, b.nhi)
    slo = None
    shi = None
    if a.slo is not None and b.slo is not None:
        if a.slo == b.slo:
            slo = a.slo
        elif (b.slo - a.slo).lo(rng) >= 0:
            slo = a.slo
        elif (a.slo - b.slo).lo(rng) >= 0:
            slo = b.slo
    if a.shi is not None and b.shi is not None:
        if a.shi == b.shi:
            shi = a.shi
        elif (a.shi - b.shi).lo(rng) >= 0:
            shi = a.shi
        elif (b.shi - a.shi).lo(rng) >= 0:
            shi = b.shi
    vn = a.vn if a.vn == b.vn else None
    return IntV(nlo, nhi, a.bits, a.signed, slo, shi, vn)


def same(a, b):
    return (a.nlo == b.nlo and a.nhi == b.nhi and a.slo == b.slo and a.shi == b.shi)


def leq(a, b, rng):
    """a is included in b (b at least as loose)"""
    if a.nlo < b.nlo or a.nhi > b.nhi:
        return False
    if b.slo is not None:
        if a.slo is None or not ((a.slo - b.slo).lo(rng) >= 0):
            if not (b.slo.hi(rng) <= a.nlo):
                return False
    if b.shi is not None:
        if a.shi is None or not ((b.shi - a.shi).lo(rng) >= 0):
            if not (b.shi.lo(rng) >= a.nhi):
                return False
    return True


def widen(old, new, rng, thresholds=()):
    """old -> new at a loop head: unstable numeric bounds jump to the next threshold / type bound,
    unstable symbolic bounds are dropped."""
    tlo, thi = ty_range(old.bits, old.signed)
    nlo = old.nlo
    if new.nlo < old.nlo:
        cands = [t for t in thresholds if t <= new.nlo]
        nlo = max(cands) if cands else tlo
    nhi = old.nhi
    if new.nhi > old.nhi:
        cands = [t for t in thresholds if t >= new.nhi]
        nhi = min(cands) if cands else thi
    slo = old.slo if (old.slo is not None and new.slo is not None and
                      (old.slo == new.slo or (new.slo - old.slo).lo(rng) >= 0)) else None
    shi = old.shi if (old.shi is not None and new.shi is not None and
                      (old.shi == new.shi or (old.shi - new.shi).lo(rng) >= 0)) else None
    vn = old.vn if old.vn == new.vn else None
    return IntV(nlo, nhi, old.bits, old.signed, slo, shi, vn)


# ---------------------------------------------------------------------------
# arithmetic (mathematical integers; wrapping / overflow is decided by the caller)

def add(a, b):
    slo = a.slo + b.slo if a.slo is not None and b.slo is not None else None
    shi = a.shi + b.shi if a.shi is not None and b.shi is not None else None
    return IntV(a.nlo + b.nlo, a.nhi + b.nhi, a.bits, a.signed, slo, shi)


def sub(a, b):
    slo = a.slo - b.shi if a.slo is not None and b.shi is not None else None
    shi = a.shi - b.slo if a.shi is not None and b.slo is not None else None
    return IntV(a.nlo - b.nhi, a.nhi - b.nlo, a.bits, a.signed, slo, shi)


def mul(a, b):
    cs = [a.nlo * b.nlo, a.nlo * b.nhi, a.nhi * b.nlo, a.nhi * b.nhi]
    slo = shi = None
    if b.is_const() and b.nlo >= 0:
        k = b.nlo
        slo = a.slo.scale(k) if a.slo is not None else None
        shi = a.shi.scale(k) if a.shi is not None else None
    elif a.is_const() and a.nlo >= 0:
        k = a.nlo
        slo = b.slo.scale(k) if b.slo is not None else None
        shi = b.shi.scale(k) if b.shi is not None else None
    return IntV(min(cs), max(cs), a.bits, a.signed, slo, shi)


def _fdiv(x, y):
    # truncating division for non-negative operands (the only case kept precise)
    return x // y


def div(a, b):
    """a / b for b > 0 proven by the caller (nlo >= 1) and a >= 0; otherwise top of type"""
    if b.nlo <= 0 or a.nlo < 0:
        return IntV.top(a.bits, a.signed)
    slo = shi = None
    if b.is_const():
        k = b.nlo
        if a.slo is not None:
            slo = a.slo.div_exact(k)
        if a.shi is not None:
            shi = a.shi.div_exact(k)
    return IntV(_fdiv(a.nlo, b.nhi), _fdiv(a.nhi, b.nlo), a.bits, a.signed, slo, shi)


def rem(a, b):
    """a % b for b > 0 and a >= 0"""
    if b.nlo <= 0 or a.nlo < 0:
        return IntV.top(a.bits, a.signed)
    if b.is_const():
        k = b.nlo
        ex = a.exact()
        if ex is not None:
            r = ex.rem_exact(k)
            if r is not None:
                return IntV.const(r.c, a.bits, a.signed)
        if a.nhi - a.nlo < k and (a.nlo % k) <= (a.nhi % k):
            return IntV(a.nlo % k, a.nhi % k, a.bits, a.signed)
    if a.nhi < b.nlo:
        # a < b: a % b = a
        return IntV(a.nlo, a.nhi, a.bits, a.signed, a.slo, a.shi)
    shi = b.shi - 1 if b.shi is not None else None
    return IntV(0, min(a.nhi, b.nhi - 1), a.bits, a.signed, Aff(0), shi)


def shl(a, b):
    if b.is_const() and 0 <= b.nlo < a.bits and a.nlo >= 0:
        k = 1 << b.nlo
        return mul(a, IntV.const(k, a.bits, a.signed))
    return IntV.top(a.bits, a.signed)


def shr(a, b):
    if a.nlo < 0:
        return IntV.top(a.bits, a.signed)
    if b.is_const() and 0 <= b.nlo < a.bits:
        return div(a, IntV.const(1 << b.nlo, a.bits, a.signed))
    if b.nlo >= 0:
        return IntV(0, a.nhi >> min(b.nlo, a.bits - 1) if b.nlo < a.bits else 0, a.bits, a.signed)
    return IntV.top(a.bits, a.signed)


def bitand(a, b):
    if a.nlo < 0 or b.nlo < 0:
        return IntV.top(a.bits, a.signed)
    if a.is_const() and b.is_const():
        return IntV.const(a.nlo & b.nlo, a.bits, a.signed)
    # x & mask where mask = 2^k - 1: x % 2^k
    for x, m in ((a, b), (b, a)):
        if m.is_const() and (m.nlo & (m.nlo + 1)) == 0:
            return rem(x, IntV.const(m.nlo + 1, a.bits, a.signed)).retype(a.bits, a.signed)
    return IntV(0, min(a.nhi, b.nhi), a.bits, a.signed)


def _bitlen_bound(x):
    return (1 << x.bit_length()) - 1


def bitor(a, b):
    if a.nlo < 0 or b.nlo < 0:
        return IntV.top(a.bits, a.signed)
    if a.is_const() and b.is_const():
        return IntV.const(a.nlo | b.nlo, a.bits, a.signed)
    return IntV(max(a.nlo, b.nlo), _bitlen_bound(max(a.nhi, b.nhi)), a.bits, a.signed)


def bitxor(a, b):
    if a.nlo < 0 or b.nlo < 0:
        return IntV.top(a.bits, a.signed)
    if a.is_const() and b.is_const():
        return IntV.const(a.nlo ^ b.nlo, a.bits, a.signed)
    return IntV(0, _bitlen_bound(max(a.nhi, b.nhi)), a.bits, a.signed)


def fits(v, bits, signed, rng=None):
    lo, hi = ty_range(bits, signed)
    return v.nlo >= lo and v.nhi <= hi


def wrap(v, bits, signed):
    """value after reduction into the type: identity when it fits, else the full range"""
    if fits(v, bits, signed):
        return v.retype(bits, signed)
    return IntV.top(bits, signed)
