"""Bit-provenance domain over terms: a value is a list of bit slots (LSB first), each
0, 1, ("in", name, k) = copy of bit k of a named input, or None (unknown).
Exact for shifts by constants, masks, truncating / zero-extending casts, and for
+ | ^ when no slot can be non-zero in both operands (no carry)."""

from .absint import int_ty_of_str


class BitsError(Exception):
    pass


def const_bits(v, w):
    return [(v >> i) & 1 for i in range(w)]


def inp(name, w):
    return [("in", name, i) for i in range(w)]


def width_of(b):
    return len(b)


def resize(b, w):
    if len(b) >= w:
        return b[:w]
    return b + [0] * (w - len(b))


def eval_bits(t, env, width=None):
    """env: callable(term) -> bits or None for leaves; returns bits list"""
    r = env(t)
    if r is not None:
        return r
    k = t[0]
    if k == "const":
        v = t[1]
        w = width or max(1, int(v).bit_length())
        return const_bits(v, w)
    if k == "cast":
        it = int_ty_of_str(t[1])
        if it is None or it[1]:
            raise BitsError("cast to non-unsigned type %s" % t[1])
        inner = eval_bits(t[2], env)
        return resize(inner, it[0])
    if k == "op":
        op = t[1]
        a = eval_bits(t[2], env, width)
        w = len(a)
        if op in ("Shl", "Shr"):
            n = t[3]
            if n[0] == "cast":
                n = n[2]
            if n[0] != "const":
                raise BitsError("shift by non-constant")
            s = n[1]
            if op == "Shl":
                return resize([0] * s + a, w)
            return resize(a[s:], w)
        b = eval_bits(t[3], env, w)
        if t[2][0] == "const" and t[3][0] != "const":
            a = resize(a, len(b))
            w = len(b)
        b = resize(b, w)
        if op == "BitAnd":
            out = []
            for x, y in zip(a, b):
                if x == 0 or y == 0:
                    out.append(0)
                elif x == 1:
                    out.append(y)
                elif y == 1:
                    out.append(x)
                elif x == y:
                    out.append(x)
                else:
                    out.append(None)
            return out
        if op in ("BitOr", "BitXor", "Add"):
            out = []
            carry_possible = False
            for x, y in zip(a, b):
                if carry_possible:
                    out.append(None)
                    continue
                if x == 0:
                    out.append(y)
                elif y == 0:
                    out.append(x)
                else:
                    # both possibly non-zero
                    if op == "Add":
                        carry_possible = True
                        out.append(None)
                    elif op == "BitOr" and x == y:
                        out.append(x)
                    elif op == "BitXor" and x == y and x is not None:
                        out.append(0)
                    elif op == "BitOr" and (x == 1 or y == 1):
                        out.append(1)
                    else:
                        out.append(None)
            return out
        raise BitsError("operator %s not modelled" % op)
    # byte-order helpers of the integer types: x.to_be_bytes()[j], uN::from_be_bytes([b0, .., bn]) (and _le_)
    if k == "index" and t[1][0] == "call" and isinstance(t[1][1], str) and t[2][0] == "const":
        nm = t[1][1]
        short = nm.split("::")[-1]
        if short in ("to_be_bytes", "to_le_bytes", "to_ne_bytes") and len(t[1][2]) == 1:
            it = _impl_int(nm)
            if it is None or short == "to_ne_bytes":
                raise BitsError("byte conversion %s not modelled" % nm)
            x = resize(eval_bits(t[1][2][0], env), it)
            n = it // 8
            j = t[2][1]
            if not (0 <= j < n):
                raise BitsError("byte index out of range")
            lo = 8 * (n - 1 - j) if short == "to_be_bytes" else 8 * j
            return x[lo:lo + 8]
    if k == "call" and isinstance(t[1], str):
        short = t[1].split("::")[-1]
        if short in ("from_be_bytes", "from_le_bytes") and len(t[2]) == 1 and t[2][0][0] == "agg" and t[2][0][1] == "array":
            it = _impl_int(t[1])
            elems = t[2][0][2]
            if it is None or len(elems) * 8 != it:
                raise BitsError("byte conversion %s not modelled" % t[1])
            bs = [resize(eval_bits(e, env, 8), 8) for e in elems]
            if short == "from_be_bytes":
                bs = bs[::-1]
            out = []
            for b in bs:
                out.extend(b)
            return out
        # lossless widening conversions
        if short in ("from", "into") and len(t[2]) == 1 and ("convert::From" in t[1] or "convert::Into" in t[1] or "<impl" in t[1]):
            return eval_bits(t[2][0], env, width)
    raise BitsError("term %s not modelled" % (k,))


def _impl_int(name):
    """bit width of the unsigned integer type in a path like std::num::<impl u32>::to_be_bytes"""
    import re
    m = re.search(r"<impl (u8|u16|u32|u64|u128)>", name)
    return int(m.group(1)[1:]) if m else None
