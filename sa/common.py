"""Verdict bookkeeping: obligations, violations, floors, evidence files, known findings."""
import json
import os
import sys
import time

from . import mir

VERIF = mir.VERIF
# developer tools (selftest/par_run.py) redirect the evidence of scratch runs; registered checks always write /verif/evidence
EVID_DIR = os.environ.get("VERIF_EVIDENCE_DIR") or os.path.join(VERIF, "evidence")
KNOWN = os.path.join(VERIF, "known_findings.json")


def load_known():
    try:
        with open(KNOWN) as fh:
            k = json.load(fh)
    except FileNotFoundError:
        return {"findings": [], "fixed": []}
    return k


class Report:
    """Collects obligations of one property run.

    obligation(): one rule instance, discharged or violated.
    Violation identity = rule | function | construct fingerprint (never a line number).
    """

    def __init__(self, pid, tier):
        self.pid = pid
        self.tier = tier
        self.t0 = time.time()
        self.obls = []  # dicts
        self.viol = []
        self.notes = []
        self.rule_counts = {}
        self.configs = []
        self.assumptions = []
        self.trusted = []
        self.analysed = {}

    # ------------------------------------------------------------------
    def ok(self, rule, where, what, detail=None, cfg=None):
        self._add(rule, where, what, True, detail, cfg)

    def bad(self, rule, fn, fingerprint, where, msg, detail=None, cfg=None):
        key = "%s|%s|%s" % (rule, fn, fingerprint)
        self._add(rule, where, msg, False, detail, cfg)
        for v in self.viol:
            if v["key"] == key:
                if cfg and cfg not in v["cfgs"]:
                    v["cfgs"].append(cfg)
                return
        self.viol.append({"key": key, "rule": rule, "fn": fn, "where": where, "msg": msg,
                          "detail": detail, "cfgs": [cfg] if cfg else []})

    def check(self, cond, rule, fn, fingerprint, where, what, detail=None, cfg=None):
        if cond:
            self.ok(rule, where, what, detail, cfg)
        else:
            self.bad(rule, fn, fingerprint, where, what, detail, cfg)
        return cond

    def _add(self, rule, where, what, ok, detail, cfg):
        self.rule_counts.setdefault(rule, [0, 0])
        self.rule_counts[rule][0] += 1
        if ok:
            self.rule_counts[rule][1] += 1
        o = {"rule": rule, "where": where, "what": what, "ok": ok}
        if detail is not None:
            o["detail"] = detail
        if cfg:
            o["cfg"] = cfg
        self.obls.append(o)

    def floor(self, rule, found, floor, what, cfg=None):
        """fail closed when an anchor / instance count falls below what was confirmed by reading"""
        if found < floor:
            self.bad(rule, "-", "anchor-missing:%s" % what, "-",
                     "anchor-missing: %s: found %d instance(s), confirmed floor is %d" % (what, found, floor),
                     cfg=cfg)
        else:
            self.ok(rule, "-", "floor: %s: %d instance(s) >= %d" % (what, found, floor), cfg=cfg)

    def note(self, s):
        self.notes.append(s)

    # ------------------------------------------------------------------
    def finish(self, level, explanation, checker_cmd, undecided=None):
        known = load_known()
        kf = {(f["property"], f["key"]): f for f in known.get("findings", [])}
        new = []
        knownhit = []
        for v in self.viol:
            if (self.pid, v["key"]) in kf:
                knownhit.append((v, kf[(self.pid, v["key"])]))
            else:
                new.append(v)
        n_ob = len(self.obls)
        n_ok = sum(1 for o in self.obls if o["ok"])
        os.makedirs(EVID_DIR, exist_ok=True)
        replay_dir = os.path.join(EVID_DIR, "replay")
        # samples: a few obligations per rule
        samples = []
        per_rule = {}
        for o in self.obls:
            c = per_rule.get(o["rule"], 0)
            if c < 3 or not o["ok"]:
                samples.append(o)
                per_rule[o["rule"]] = c + 1
        cov = {
            "obligations": n_ob,
            "discharged": n_ok,
            "checker_cmd": checker_cmd,
            "trusted_base": self.trusted or [
                "rustc front end / const evaluator / MIR construction of the installed nightly",
                "the checker's own transfer functions and the RFC 6330 formulas written into it",
            ],
            "explanation": explanation,
            "rule": "every rule instance is enumerated from the MIR/const facts of the current /repo tree; "
                    "an instance is an obligation; distinct = distinct (rule, site)",
            "evaluations": n_ob,
            "distinct_nontrivial": len({(o["rule"], o["where"], o["what"]) for o in self.obls}),
            "per_rule": {r: {"instances": c[0], "discharged": c[1]} for r, c in sorted(self.rule_counts.items())},
            "configurations": self.configs,
            "analysed": self.analysed,
            "samples": samples[:60],
            "exhaustive": True,
        }
        if undecided:
            cov["not_decided"] = undecided
        if self.notes:
            cov["notes"] = self.notes
        if knownhit:
            cov["known_findings_hit"] = [v["key"] for v, _ in knownhit]
        ev = {
            "property_id": self.pid,
            "tier": self.tier,
            "seed": int(os.environ.get("VERIF_SEED", "0") or 0),
            "level": level,
            "coverage": cov,
            "assumptions": self.assumptions,
            "wall_s": round(time.time() - self.t0, 3),
            "violations": len(new),
        }
        with open(os.path.join(EVID_DIR, "%s.json" % self.pid), "w") as fh:
            json.dump(ev, fh, indent=1)
        print("[%s %s] obligations=%d discharged=%d rules=%d configs=%s wall=%.1fs" % (
            self.pid, self.tier, n_ob, n_ok, len(self.rule_counts), ",".join(self.configs), time.time() - self.t0))
        for r, c in sorted(self.rule_counts.items()):
            print("   %-34s %4d instance(s), %4d discharged" % (r, c[0], c[1]))
        for v, f in knownhit:
            print("KNOWN-FINDING: property=%s %s" % (self.pid, f.get("what", v["msg"])))
        if os.path.isdir(replay_dir):
            for f in os.listdir(replay_dir):
                if f.startswith(self.pid + "_"):
                    os.remove(os.path.join(replay_dir, f))
        if new:
            os.makedirs(replay_dir, exist_ok=True)
            for i, v in enumerate(new):
                rp = os.path.join(replay_dir, "%s_%d.json" % (self.pid, i))
                with open(rp, "w") as fh:
                    json.dump({"property": self.pid, "tier": self.tier, **v}, fh, indent=1)
                print("  violated: %s at %s%s\n     %s" % (v["key"], v["where"],
                                                          (" [" + ",".join(v["cfgs"]) + "]") if v["cfgs"] else "",
                                                          v["msg"]))
                print("VIOLATION property=%s replay=%s" % (self.pid, rp))
            return 1
        return 0


def internal_error(pid, msg):
    print("ERROR property=%s checker could not run: %s" % (pid, msg))
    return 2
