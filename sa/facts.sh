#!/bin/bash
# usage: facts.sh <src-dir> <config-id> <out-json> [crate-name]
# Compiles a scratch copy of <src-dir> with the rqfacts driver under the cargo
# configuration <config-id> and writes the fact file to <out-json>.
set -euo pipefail
SRC="$1"; CFG="$2"; OUT="$3"; CRATE="${4:-raptorq}"
HERE="$(cd "$(dirname "$0")/.." && pwd)"
DRV="$HERE/rqfacts/target/release/rqfacts"
[ -x "$DRV" ] || { echo "facts.sh: driver not built (run setup)"; exit 2; }
SCR="$(mktemp -d /var/tmp/rqfacts.XXXXXX)"
trap 'rm -rf "$SCR"' EXIT
mkdir -p "$SCR/src" "$SCR/out" "$SCR/target"
rsync -a --exclude target --exclude .git --exclude fuzz "$SRC"/ "$SCR/src/"
rm -f "$SCR/src/rust-toolchain" "$SCR/src/rust-toolchain.toml"
FLAGS=()
case "$CFG" in
  dev-std) ;;
  rel-std) FLAGS+=(--release) ;;
  dev-nostd) FLAGS+=(--no-default-features) ;;
  rel-nostd) FLAGS+=(--release --no-default-features) ;;
  dev-bench) FLAGS+=(--features benchmarking) ;;
  dev-serde) FLAGS+=(--features serde_support) ;;
  *) echo "unknown config $CFG"; exit 2 ;;
esac
SYSROOT="$(rustc +nightly --print sysroot)"
cd "$SCR/src"
if ! env CARGO_NET_OFFLINE=true LD_LIBRARY_PATH="$SYSROOT/lib" \
    RUSTFLAGS="-Zmir-opt-level=0 -Awarnings" RUSTC_WORKSPACE_WRAPPER="$DRV" \
    RQFACTS_OUT="$SCR/out" RQFACTS_CRATES="$CRATE" CARGO_TARGET_DIR="$SCR/target" \
    cargo +nightly check --offline --lib "${FLAGS[@]}" >"$SCR/log" 2>&1; then
  echo "facts.sh: build failed for $CFG"; tail -40 "$SCR/log"; exit 3
fi
[ -s "$SCR/out/$CRATE.json" ] || { echo "facts.sh: no fact file produced for $CFG"; tail -20 "$SCR/log"; exit 3; }
mkdir -p "$(dirname "$OUT")"
mv "$SCR/out/$CRATE.json" "$OUT.tmp.$$" && mv "$OUT.tmp.$$" "$OUT"
