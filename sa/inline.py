"""MIR-level inlining of extracted private helpers (fact-file JSON level).

A private, non-generic, non-recursive crate function all of whose call sites are in ONE function is treated
as an extracted helper of that function; rules that compare a function with a template retry on the body with
such helpers spliced in, so that 'extract helper' / 'inline helper' refactorings do not change the verdict."""
import copy

from . import mir


def callers_of(crate):
    idx = getattr(crate, "_callers", None)
    if idx is None:
        idx = {}
        for k, f in crate.fns.items():
            for bi, t in f.calls():
                r = t.get("resolved") or t.get("callee")
                if r in crate.fns:
                    idx.setdefault(r, set()).add(k)
        crate._callers = idx
    return idx


def is_helper_of(crate, callee_key, caller_key):
    g = crate.fns.get(callee_key)
    if g is None or g.f["kind"] not in ("Fn", "AssocFn") or g.f.get("impl_trait"):
        return False
    if g.f["vis"] in ("pub", "crate") or g.f.get("unsafe"):
        return False
    if len(g.blocks) > 80 or g.f.get("generic_count", 0) > 0:
        return False
    cs = callers_of(crate).get(callee_key, set())
    return cs == {caller_key}


def _remap_place(p, lmap):
    p = dict(p)
    p["l"] = lmap(p["l"])
    proj = []
    for e in p["proj"]:
        if e["p"] == "index":
            e = dict(e)
            e["l"] = lmap(e["l"])
        proj.append(e)
    p["proj"] = proj
    return p


def _remap_operand(o, lmap, pmap):
    if o.get("o") in ("copy", "move"):
        return _remap_place(o, lmap)
    if o.get("o") == "const" and "promoted" in o:
        o = dict(o)
        o["promoted"] = pmap(o["promoted"])
    return o


def _remap_node(n, lmap, bmap, pmap):
    n = copy.copy(n)
    if n.get("s") == "assign":
        n["lhs"] = _remap_place(n["lhs"], lmap)
        rv = dict(n["rv"])
        for k in ("a", "b"):
            if k in rv:
                rv[k] = _remap_operand(rv[k], lmap, pmap)
        if "p" in rv:
            rv["p"] = _remap_place(rv["p"], lmap)
        if "ops" in rv:
            rv["ops"] = [_remap_operand(o, lmap, pmap) for o in rv["ops"]]
        n["rv"] = rv
        return n
    if n.get("s") == "setdiscr":
        n["lhs"] = _remap_place(n["lhs"], lmap)
        return n
    t = n.get("t")
    if t is None:
        return n
    if t == "goto":
        n["target"] = bmap(n["target"])
    elif t == "switch":
        n["discr"] = _remap_operand(n["discr"], lmap, pmap)
        n["arms"] = [[v, bmap(b)] for v, b in n["arms"]]
        n["otherwise"] = bmap(n["otherwise"])
    elif t == "call":
        n["args"] = [_remap_operand(a, lmap, pmap) for a in n["args"]]
        n["dest"] = _remap_place(n["dest"], lmap)
        if n.get("target") is not None:
            n["target"] = bmap(n["target"])
        if n.get("unwind") is not None:
            n["unwind"] = bmap(n["unwind"])
        if "fnop" in n:
            n["fnop"] = _remap_operand(n["fnop"], lmap, pmap)
    elif t == "assert":
        n["cond"] = _remap_operand(n["cond"], lmap, pmap)
        n["ops"] = [_remap_operand(o, lmap, pmap) for o in n["ops"]]
        n["target"] = bmap(n["target"])
        if n.get("unwind") is not None:
            n["unwind"] = bmap(n["unwind"])
    elif t == "drop":
        n["p"] = _remap_place(n["p"], lmap)
        n["target"] = bmap(n["target"])
        if n.get("unwind") is not None:
            n["unwind"] = bmap(n["unwind"])
    return n


def inline_helpers(crate, fn, rounds=2):
    """returns a new mir.Fn with helper calls spliced in, or None if there is nothing to inline"""
    f = copy.deepcopy(fn.f)
    changed_any = False
    for _ in range(rounds):
        body = f["mir"]
        blocks = body["blocks"]
        locals_ = body["locals"]
        todo = []
        for b in blocks:
            if b["cleanup"]:
                continue
            t = b["term"]
            if t["t"] == "call" and t.get("target") is not None:
                r = t.get("resolved") or t.get("callee")
                if r != fn.key and is_helper_of(crate, r, fn.key):
                    todo.append((b["i"], r))
        if not todo:
            break
        for bi, r in todo:
            g = crate.fns[r]
            t = blocks[bi]["term"]
            lbase = len(locals_)
            bbase = len(blocks)
            pbase = len(f["promoted"])
            lmap = lambda l, lbase=lbase: lbase + l
            bmap = lambda b, bbase=bbase: bbase + b
            pmap = lambda p, pbase=pbase: pbase + p
            for l in g.locals:
                nl = dict(l)
                nl["i"] = lbase + l["i"]
                nl["name"] = None      # helper-local names are not user variables of the caller
                locals_.append(nl)
            for pb in g.f["promoted"]:
                f["promoted"].append(copy.deepcopy(pb))
            dest, target = t["dest"], t["target"]
            for gb in g.blocks:
                nb = {"i": bbase + gb["i"], "cleanup": gb["cleanup"],
                      "stmts": [_remap_node(s, lmap, bmap, pmap) for s in gb["stmts"]],
                      "term": _remap_node(gb["term"], lmap, bmap, pmap)}
                if nb["term"]["t"] == "return":
                    nb["stmts"].append({"s": "assign", "lhs": dest,
                                        "rv": {"r": "use", "a": {"l": lbase, "proj": [], "ty": g.locals[0]["ty"]["s"], "o": "move"}},
                                        "sp": t["sp"]})
                    nb["term"] = {"t": "goto", "target": target, "sp": t["sp"]}
                blocks.append(nb)
            # parameter passing, then jump into the helper
            for i, a in enumerate(t["args"]):
                blocks[bi]["stmts"].append({"s": "assign", "lhs": {"l": lbase + 1 + i, "proj": [], "ty": g.locals[1 + i]["ty"]["s"]},
                                            "rv": {"r": "use", "a": a}, "sp": t["sp"]})
            blocks[bi]["term"] = {"t": "goto", "target": bbase, "sp": t["sp"]}
            changed_any = True
    if not changed_any:
        return None
    nf = mir.Fn(f, crate)
    nf.key = fn.key
    nf.inlined = True
    return nf


def expand_for_each(crate, fn):
    """`iter.for_each(|x| body)` rewritten as the loop it is:  loop { match iter.next() { Some(x) => body, None => break } }.
    The closure body is spliced in; captured variables are accessed directly (a capture `&mut v` used as `*env.k` becomes `v`),
    so that loop-carried state updated inside the closure is visible as state of the enclosing function.
    Returns a new mir.Fn or None."""
    f = copy.deepcopy(fn.f)
    body = f["mir"]
    blocks = body["blocks"]
    locals_ = body["locals"]
    changed = False

    def find_def(l):
        """the single statement-level assignment to local l (None if not exactly one)"""
        found = []
        for b in blocks:
            if b["cleanup"]:
                continue
            for s_ in b["stmts"]:
                if s_.get("s") == "assign" and s_["lhs"]["l"] == l and not s_["lhs"]["proj"]:
                    found.append(s_)
        return found[0] if len(found) == 1 else None
    for b in list(blocks):
        if b["cleanup"]:
            continue
        t = b["term"]
        if t["t"] != "call" or not (t.get("callee") or "").endswith("Iterator::for_each") or t.get("target") is None or len(t["args"]) != 2:
            continue
        it, cl = t["args"]
        if it.get("o") != "move" or it["proj"] or cl.get("o") != "move" or cl["proj"]:
            continue
        cdef = find_def(cl["l"])
        if cdef is None or cdef["rv"]["r"] != "aggregate" or cdef["rv"].get("agg") != "closure":
            continue
        g = crate.fns.get(cdef["rv"].get("def") or cdef["rv"].get("closure") or "")
        if g is None:
            # closure key recorded in the aggregate's type string
            for k_ in crate.fns:
                if k_.startswith(fn.key + "::{closure") and crate.fns[k_].f.get("sp") and str(cdef["rv"].get("adt") or cdef["rv"].get("name") or "") == k_:
                    g = crate.fns[k_]
        if g is None or g.argc != 2:
            continue
        caps = cdef["rv"]["ops"]
        env_by_ref = g.locals[1]["ty"].get("k") == "ref"
        # capture k -> (base place in the parent, needs one deref in the closure?)
        capmap = {}
        ok = True
        for k_, o in enumerate(caps):
            if o.get("o") not in ("move", "copy") or o["proj"]:
                ok = False
                break
            d = find_def(o["l"])
            if d is not None and d["rv"]["r"] == "ref":
                capmap[k_] = ("ref", d["rv"]["p"])          # capture is &place / &mut place
            else:
                capmap[k_] = ("val", {"l": o["l"], "proj": [], "ty": o.get("ty")})
        if not ok:
            continue
        lbase = len(locals_)
        bbase = len(blocks)
        pbase = len(f["promoted"])
        for l in g.locals:
            nl = dict(l)
            nl["i"] = lbase + l["i"]
            nl["name"] = None
            locals_.append(nl)
        for pb in g.f["promoted"]:
            f["promoted"].append(copy.deepcopy(pb))
        l_ref = len(locals_)
        locals_.append({"i": l_ref, "ty": {"s": "&mut iter", "k": "ref", "mut": True, "to": {"s": "iter"}}, "name": None, "user": False, "mut": True})
        l_nxt = len(locals_)
        locals_.append({"i": l_nxt, "ty": {"s": "std::option::Option<item>", "k": "adt", "adt": "std::option::Option", "args": []}, "name": None, "user": False, "mut": True})
        l_dis = len(locals_)
        locals_.append({"i": l_dis, "ty": {"s": "isize", "k": "int", "signed": True, "bits": 64, "psize": True}, "name": None, "user": False, "mut": True})
        env = lbase + 1
        item = lbase + 2

        def fix_place(p):
            """(*env).k [*]  ->  the captured place"""
            if p["l"] != env:
                return p
            pr = p["proj"]
            i0 = 0
            if env_by_ref:
                if not pr or pr[0].get("p") != "deref":
                    return p
                i0 = 1
            if len(pr) <= i0 or pr[i0].get("p") != "field":
                return p
            kind, base = capmap.get(pr[i0]["i"], (None, None))
            if kind is None:
                return p
            rest = pr[i0 + 1:]
            if kind == "ref":
                if not rest or rest[0].get("p") != "deref":
                    return p            # the reference itself is used (passed on): leave the access as it is
                return {"l": base["l"], "proj": list(base["proj"]) + rest[1:], "ty": p.get("ty")}
            return {"l": base["l"], "proj": list(base["proj"]) + rest, "ty": p.get("ty")}

        def fix_node(n):
            n = copy.copy(n)
            if n.get("s") == "assign":
                n["lhs"] = fix_place(n["lhs"])
                rv = dict(n["rv"])
                # tmp = copy (*env).k  where capture k is a reference  ->  tmp = &captured place
                if rv["r"] == "use" and rv["a"].get("o") in ("copy", "move") and rv["a"]["l"] == env:
                    pr = rv["a"]["proj"]
                    i0 = 1 if env_by_ref else 0
                    if len(pr) == i0 + 1 and pr[i0].get("p") == "field" and (not env_by_ref or pr[0].get("p") == "deref"):
                        kind, base = capmap.get(pr[i0]["i"], (None, None))
                        if kind == "ref":
                            n["rv"] = {"r": "ref", "mut": str(rv["a"].get("ty", "")).startswith("&mut"), "fake": False, "p": dict(base)}
                            return n
                for k_ in ("a", "b"):
                    if k_ in rv and rv[k_].get("o") in ("copy", "move"):
                        rv[k_] = dict(fix_place(rv[k_]), o=rv[k_]["o"])
                if "p" in rv:
                    rv["p"] = fix_place(rv["p"])
                if "ops" in rv:
                    rv["ops"] = [dict(fix_place(o), o=o["o"]) if o.get("o") in ("copy", "move") else o for o in rv["ops"]]
                n["rv"] = rv
            elif n.get("t") == "call":
                n["args"] = [dict(fix_place(a), o=a["o"]) if a.get("o") in ("copy", "move") else a for a in n["args"]]
                n["dest"] = fix_place(n["dest"])
            elif n.get("t") == "switch" and n["discr"].get("o") in ("copy", "move"):
                n["discr"] = dict(fix_place(n["discr"]), o=n["discr"]["o"])
            elif n.get("t") == "assert":
                if n["cond"].get("o") in ("copy", "move"):
                    n["cond"] = dict(fix_place(n["cond"]), o=n["cond"]["o"])
                n["ops"] = [dict(fix_place(o), o=o["o"]) if o.get("o") in ("copy", "move") else o for o in n["ops"]]
            elif n.get("t") == "drop":
                n["p"] = fix_place(n["p"])
            return n
        lmap = lambda l, lbase=lbase: lbase + l
        bmap = lambda x, bbase=bbase: bbase + x
        pmap = lambda x, pbase=pbase: pbase + x
        sp = t["sp"]
        n_g = len(g.blocks)
        H, H2, B, U = bbase + n_g, bbase + n_g + 1, bbase + n_g + 2, bbase + n_g + 3
        for gb in g.blocks:
            nb = {"i": bbase + gb["i"], "cleanup": gb["cleanup"],
                  "stmts": [fix_node(_remap_node(s_, lmap, bmap, pmap)) for s_ in gb["stmts"]],
                  "term": fix_node(_remap_node(gb["term"], lmap, bmap, pmap))}
            if nb["term"]["t"] == "return":
                nb["term"] = {"t": "goto", "target": H, "sp": sp}
            blocks.append(nb)
        nxt_call = {k_: v for k_, v in t.items() if k_ not in ("args", "dest", "target", "callee", "callee_full", "resolved", "gargs")}
        nxt_call.update({"t": "call", "callee": "std::iter::Iterator::next", "callee_full": "std::iter::Iterator::next", "resolved": None,
                         "gargs": [], "trait": "std::iter::Iterator",
                         "args": [{"l": l_ref, "proj": [], "ty": "&mut iter", "o": "move"}],
                         "dest": {"l": l_nxt, "proj": [], "ty": "std::option::Option<item>"}, "target": H2, "unwind": None, "sp": sp})
        blocks.append({"i": H, "cleanup": False,
                       "stmts": [{"s": "assign", "lhs": {"l": l_ref, "proj": [], "ty": "&mut iter"},
                                  "rv": {"r": "ref", "mut": True, "fake": False, "p": {"l": it["l"], "proj": [], "ty": it.get("ty")}}, "sp": sp}],
                       "term": nxt_call})
        blocks.append({"i": H2, "cleanup": False,
                       "stmts": [{"s": "assign", "lhs": {"l": l_dis, "proj": [], "ty": "isize"},
                                  "rv": {"r": "discr", "p": {"l": l_nxt, "proj": [], "ty": "std::option::Option<item>"}}, "sp": sp}],
                       "term": {"t": "switch", "discr": {"l": l_dis, "proj": [], "ty": "isize", "o": "move"},
                                "dty": {"s": "isize", "k": "int", "signed": True, "bits": 64, "psize": True},
                                "arms": [[0, t["target"]], [1, B]], "otherwise": U, "sp": sp}})
        blocks.append({"i": B, "cleanup": False,
                       "stmts": [{"s": "assign", "lhs": {"l": item, "proj": [], "ty": g.locals[2]["ty"].get("s")},
                                  "rv": {"r": "use", "a": {"l": l_nxt, "proj": [{"p": "downcast", "variant": "Some", "vi": 1},
                                                                              {"p": "field", "i": 0, "name": "0", "adt": "std::option::Option", "variant": "Some",
                                                                               "ty": g.locals[2]["ty"].get("s")}],
                                                           "ty": g.locals[2]["ty"].get("s"), "o": "copy"}}, "sp": sp}],
                       "term": {"t": "goto", "target": bbase, "sp": sp}})
        blocks.append({"i": U, "cleanup": False, "stmts": [], "term": {"t": "unreachable", "sp": sp}})
        b["term"] = {"t": "goto", "target": H, "sp": sp}
        changed = True
        # reference propagation inside the spliced body: r = &P (single definition)  =>  (*r).rest is P.rest
        new_blocks = blocks[bbase:bbase + n_g]
        for _round in range(4):
            refdef = {}
            count = {}
            for nb in new_blocks:
                for s_ in nb["stmts"]:
                    if s_.get("s") == "assign" and not s_["lhs"]["proj"]:
                        count[s_["lhs"]["l"]] = count.get(s_["lhs"]["l"], 0) + 1
                        if s_["rv"]["r"] == "ref":
                            refdef[s_["lhs"]["l"]] = s_["rv"]["p"]
                if nb["term"]["t"] == "call":
                    count[nb["term"]["dest"]["l"]] = count.get(nb["term"]["dest"]["l"], 0) + 1
            refdef = {l: p_ for l, p_ in refdef.items() if count.get(l) == 1 and l >= lbase and p_["l"] != l}
            if not refdef:
                break
            hit = [False]

            def rp(p_):
                if p_["l"] in refdef and p_["proj"] and p_["proj"][0].get("p") == "deref":
                    base = refdef[p_["l"]]
                    hit[0] = True
                    return {"l": base["l"], "proj": list(base["proj"]) + p_["proj"][1:], "ty": p_.get("ty")}
                return p_

            def rn(n):
                n = copy.copy(n)
                if n.get("s") == "assign":
                    n["lhs"] = rp(n["lhs"])
                    rv = dict(n["rv"])
                    for k_ in ("a", "b"):
                        if k_ in rv and rv[k_].get("o") in ("copy", "move"):
                            rv[k_] = dict(rp(rv[k_]), o=rv[k_]["o"])
                    if "p" in rv:
                        rv["p"] = rp(rv["p"])
                    if "ops" in rv:
                        rv["ops"] = [dict(rp(o), o=o["o"]) if o.get("o") in ("copy", "move") else o for o in rv["ops"]]
                    n["rv"] = rv
                elif n.get("t") == "call":
                    n["args"] = [dict(rp(a), o=a["o"]) if a.get("o") in ("copy", "move") else a for a in n["args"]]
                    n["dest"] = rp(n["dest"])
                elif n.get("t") == "switch" and n["discr"].get("o") in ("copy", "move"):
                    n["discr"] = dict(rp(n["discr"]), o=n["discr"]["o"])
                elif n.get("t") == "assert":
                    if n["cond"].get("o") in ("copy", "move"):
                        n["cond"] = dict(rp(n["cond"]), o=n["cond"]["o"])
                    n["ops"] = [dict(rp(o), o=o["o"]) if o.get("o") in ("copy", "move") else o for o in n["ops"]]
                return n
            for nb in new_blocks:
                nb["stmts"] = [rn(s_) for s_ in nb["stmts"]]
                nb["term"] = rn(nb["term"])
            if not hit[0]:
                break
    if not changed:
        return None
    nf = mir.Fn(f, crate)
    nf.key = fn.key
    nf.inlined = True
    return nf


def variants(crate, fn):
    """the function itself, then the function with its extracted helpers inlined and `for_each` closures written as loops"""
    yield fn
    seen = [fn]
    for tr in (inline_helpers, expand_for_each):
        for base in list(seen):
            try:
                v = tr(crate, base)
            except Exception:
                v = None
            if v is not None:
                seen.append(v)
                yield v
