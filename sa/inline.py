"""MIR-level inlining of extracted private helpers (fact-file JSON level).

A private, non-generic, non-recursive crate function all of whose call sites are in ONE function is treated
as an extracted helper of that function; rules that compare a function with a template retry on the body with
such helpers spliced in, so that 'extract helper' / 'inline helper' refactorings do not change the verdict."""
import copy

from . import mir


def callers_of(crate):
    idx = getattr(crate, "_callers", None)
    if idx is None:
        idx = {}
        for k, f in crate.fns.items():
            for bi, t in f.calls():
                r = t.get("resolved") or t.get("callee")
                if r in crate.fns:
                    idx.setdefault(r, set()).add(k)
        crate._callers = idx
    return idx


def is_helper_of(crate, callee_key, caller_key):
    g = crate.fns.get(callee_key)
    if g is None or g.f["kind"] not in ("Fn", "AssocFn") or g.f.get("impl_trait"):
        return False
    if g.f["vis"] in ("pub", "crate") or g.f.get("unsafe"):
        return False
    if len(g.blocks) > 80 or g.f.get("generic_count", 0) > 0:
        return False
    cs = callers_of(crate).get(callee_key, set())
    return cs == {caller_key}


def _remap_place(p, lmap):
    p = dict(p)
    p["l"] = lmap(p["l"])
    proj = []
    for e in p["proj"]:
        if e["p"] == "index":
            e = dict(e)
            e["l"] = lmap(e["l"])
        proj.append(e)
    p["proj"] = proj
    return p


def _remap_operand(o, lmap, pmap):
    if o.get("o") in ("copy", "move"):
        return _remap_place(o, lmap)
    if o.get("o") == "const" and "promoted" in o:
        o = dict(o)
        o["promoted"] = pmap(o["promoted"])
    return o


def _remap_node(n, lmap, bmap, pmap):
    n = copy.copy(n)
    if n.get("s") == "assign":
        n["lhs"] = _remap_place(n["lhs"], lmap)
        rv = dict(n["rv"])
        for k in ("a", "b"):
            if k in rv:
                rv[k] = _remap_operand(rv[k], lmap, pmap)
        if "p" in rv:
            rv["p"] = _remap_place(rv["p"], lmap)
        if "ops" in rv:
            rv["ops"] = [_remap_operand(o, lmap, pmap) for o in rv["ops"]]
        n["rv"] = rv
        return n
    if n.get("s") == "setdiscr":
        n["lhs"] = _remap_place(n["lhs"], lmap)
        return n
    t = n.get("t")
    if t is None:
        return n
    if t == "goto":
        n["target"] = bmap(n["target"])
    elif t == "switch":
        n["discr"] = _remap_operand(n["discr"], lmap, pmap)
        n["arms"] = [[v, bmap(b)] for v, b in n["arms"]]
        n["otherwise"] = bmap(n["otherwise"])
    elif t == "call":
        n["args"] = [_remap_operand(a, lmap, pmap) for a in n["args"]]
        n["dest"] = _remap_place(n["dest"], lmap)
        if n.get("target") is not None:
            n["target"] = bmap(n["target"])
        if n.get("unwind") is not None:
            n["unwind"] = bmap(n["unwind"])
        if "fnop" in n:
            n["fnop"] = _remap_operand(n["fnop"], lmap, pmap)
    elif t == "assert":
        n["cond"] = _remap_operand(n["cond"], lmap, pmap)
        n["ops"] = [_remap_operand(o, lmap, pmap) for o in n["ops"]]
        n["target"] = bmap(n["target"])
        if n.get("unwind") is not None:
            n["unwind"] = bmap(n["unwind"])
    elif t == "drop":
        n["p"] = _remap_place(n["p"], lmap)
        n["target"] = bmap(n["target"])
        if n.get("unwind") is not None:
            n["unwind"] = bmap(n["unwind"])
    return n


def inline_helpers(crate, fn, rounds=2):
    """returns a new mir.Fn with helper calls spliced in, or None if there is nothing to inline"""
    f = copy.deepcopy(fn.f)
    changed_any = False
    for _ in range(rounds):
        body = f["mir"]
        blocks = body["blocks"]
        locals_ = body["locals"]
        todo = []
        for b in blocks:
            if b["cleanup"]:
                continue
            t = b["term"]
            if t["t"] == "call" and t.get("target") is not None:
                r = t.get("resolved") or t.get("callee")
                if r != fn.key and is_helper_of(crate, r, fn.key):
                    todo.append((b["i"], r))
        if not todo:
            break
        for bi, r in todo:
            g = crate.fns[r]
            t = blocks[bi]["term"]
            lbase = len(locals_)
            bbase = len(blocks)
            pbase = len(f["promoted"])
            lmap = lambda l, lbase=lbase: lbase + l
            bmap = lambda b, bbase=bbase: bbase + b
            pmap = lambda p, pbase=pbase: pbase + p
            for l in g.locals:
                nl = dict(l)
                nl["i"] = lbase + l["i"]
                nl["name"] = None      # helper-local names are not user variables of the caller
                locals_.append(nl)
            for pb in g.f["promoted"]:
                f["promoted"].append(copy.deepcopy(pb))
            dest, target = t["dest"], t["target"]
            for gb in g.blocks:
                nb = {"i": bbase + gb["i"], "cleanup": gb["cleanup"],
                      "stmts": [_remap_node(s, lmap, bmap, pmap) for s in gb["stmts"]],
                      "term": _remap_node(gb["term"], lmap, bmap, pmap)}
                if nb["term"]["t"] == "return":
                    nb["stmts"].append({"s": "assign", "lhs": dest,
                                        "rv": {"r": "use", "a": {"l": lbase, "proj": [], "ty": g.locals[0]["ty"]["s"], "o": "move"}},
                                        "sp": t["sp"]})
                    nb["term"] = {"t": "goto", "target": target, "sp": t["sp"]}
                blocks.append(nb)
            # parameter passing, then jump into the helper
            for i, a in enumerate(t["args"]):
                blocks[bi]["stmts"].append({"s": "assign", "lhs": {"l": lbase + 1 + i, "proj": [], "ty": g.locals[1 + i]["ty"]["s"]},
                                            "rv": {"r": "use", "a": a}, "sp": t["sp"]})
            blocks[bi]["term"] = {"t": "goto", "target": bbase, "sp": t["sp"]}
            changed_any = True
    if not changed_any:
        return None
    nf = mir.Fn(f, crate)
    nf.key = fn.key
    nf.inlined = True
    return nf


def variants(crate, fn):
    """the function itself, then (if any) the function with its extracted helpers inlined"""
    yield fn
    try:
        v = inline_helpers(crate, fn)
    except Exception:
        v = None
    if v is not None:
        yield v
