"""Loop / emission summaries over terms: the normal form in which sibling implementations
(and reference implementations written from the RFC in /verif/fixtures) are compared.

summary = {
  "loops":  [ {id, parent, kind: "for"|"while", source|conds, carried: [(var, init, update)]} ... ]  (RPO order of heads)
  "events": [ {loop: id|None, sink, args: (terms...), conds: [(cond, truth)]} ... ]                   (RPO order)
}
Loop-carried values appear in terms as ("cur", n) with n the index of the carried variable
(numbered in order of first appearance), so that two functions can be compared structurally.
"""
from . import terms as T


class LoopSummary:
    def __init__(self, fn, sink, tb=None, crate=None):
        self.fn = fn
        self.tb = tb or T.TermBuilder(fn)
        self.cfg = fn.cfg
        self.sink = sink
        self.loops_raw = self.cfg.loops()
        self.heads = sorted(self.loops_raw, key=lambda h: self.cfg.rpo.index(h))
        self.cur_ids = {}     # (local) -> n
        self.build()

    def loop_of(self, b):
        """innermost loop head containing block b"""
        best = None
        for h in self.heads:
            if b in self.loops_raw[h]:
                if best is None or len(self.loops_raw[h]) < len(self.loops_raw[best]):
                    best = h
        return best

    def parent_of(self, h):
        best = None
        for g in self.heads:
            if g != h and h in self.loops_raw[g]:
                if best is None or len(self.loops_raw[g]) < len(self.loops_raw[best]):
                    best = g
        return best

    def carried_locals(self, h):
        body = self.loops_raw[h]
        out = []
        for l, ds in self.tb.defs.items():
            inside = [d for d in ds if d[0] in body and d[2]]
            if not inside:
                continue
            rs = self.tb.reaching(h, 0, l)
            has_in = any(r != ("ENTRY",) and r[0] in body for r in rs)
            has_out = any((r == ("ENTRY",) and 1 <= l <= self.fn.argc) or (r != ("ENTRY",) and r[0] not in body) for r in rs)
            if has_in and has_out:
                out.append(l)
        return out

    def canon(self, t):
        """replace loop-carried phi/mu patterns by ("cur", n) and iterator items by ("item", loop id)"""
        items = getattr(self, "_items", {})

        def f(x):
            if x[0] == "field" and x[2] == 0 and x[1][0] == "variant" and x[1][2] == "Some":
                k = items.get(x[1][1])
                if k is not None:
                    return ("item", k)
            if x[0] == "mu":
                return ("cur", self.cur_id(x[1]))
            if x[0] == "phi":
                curs = [y for y in x[1] if y[0] == "cur"]
                if curs:
                    return curs[0]
            return x
        return T.map_term(t, f)

    def cur_id(self, l):
        if l not in self.cur_ids:
            self.cur_ids[l] = len(self.cur_ids)
        return self.cur_ids[l]

    def build(self):
        tb = self.tb
        cfg = self.cfg
        fn = self.fn
        self.loops = []
        idx = {h: i for i, h in enumerate(self.heads)}
        for h in self.heads:
            body = self.loops_raw[h]
            par = self.parent_of(h)
            info = {"id": idx[h], "head": h, "parent": idx[par] if par is not None else None}
            # iterator-driven?
            src = None
            conds = []
            for b in sorted(body, key=lambda x: cfg.rpo.index(x)):
                if self.loop_of(b) != h:
                    continue
                t = fn.blocks[b]["term"]
                if t["t"] == "call" and (t.get("callee") or "").endswith("Iterator::next") and src is None:
                    ct = tb.call_term(b, t)
                    src = ct[2][0]
                    info["next_term"] = ct
                bc = tb.branch_cond(b)
                if bc is not None:
                    c, tt, ft = bc
                    live = cfg._can_reach_exit()
                    # an edge that leaves the loop only to panic is a refusal, not a loop exit
                    if tt not in body and ft in body and tt in live:
                        conds.append((c, False))   # stays in the loop while cond is false
                    elif ft not in body and tt in body and ft in live:
                        conds.append((c, True))
            carried = []
            latches = [p for p in cfg.pred[h] if p in body]
            entries = [p for p in cfg.pred[h] if p not in body]
            for l in self.carried_locals(h):
                n = self.cur_id(l)
                init = [tb.local(p, None, l) for p in entries]
                upd = [tb.local(p, None, l) for p in latches]
                carried.append((n, l, init, upd))
            info["kind"] = "for" if src is not None else "while"
            info["source_raw"] = src
            info["conds_raw"] = conds
            info["carried_raw"] = carried
            self.loops.append(info)
        # iterator items: value yielded by the loop's own `next` call
        self._items = {}
        for info in self.loops:
            if info.get("next_term") is not None:
                self._items[info["next_term"]] = info["id"]
        # second pass: canonical terms (cur ids are now assigned for all carried locals)
        for info in self.loops:
            info["source"] = self.canon(strip_iter(info["source_raw"])) if info["source_raw"] is not None else None
            info["conds"] = [(self.canon(c), v) for c, v in info["conds_raw"]]
            info["carried"] = []
            for n, l, init, upd in info["carried_raw"]:
                ini = [self.canon(x) for x in init]
                up = [self.canon(x) for x in upd]
                info["carried"].append({"var": n, "name": fn.local_name(l), "init": dedupe(ini), "update": dedupe(up)})
        self.events = []
        for b in cfg.rpo:
            # stores through references / pointers: *p = v
            for i, st in enumerate(fn.blocks[b]["stmts"]):
                if st["s"] == "assign" and st["lhs"]["proj"] and any(e["p"] == "deref" for e in st["lhs"]["proj"]):
                    s = self.sink(("store",), st)
                    if s is None:
                        continue
                    h = self.loop_of(b)
                    addr = tb.place(b, i, st["lhs"])
                    val = tb.rvalue(b, i, st["rv"])
                    self.events.append({"loop": idx[h] if h is not None else None, "sink": s,
                                        "args": (self.canon(addr), self.canon(val)), "block": b})
            t = fn.blocks[b]["term"]
            if t["t"] != "call":
                continue
            ct = tb.call_term(b, t)
            s = self.sink(ct, t)
            if s is None:
                continue
            h = self.loop_of(b)
            conds = []
            self.events.append({"loop": idx[h] if h is not None else None, "sink": s,
                                "args": tuple(self.canon(a) for a in (ct[2] if ct[0] == "call" else ())),
                                "block": b})


def dedupe(xs):
    return list(dict.fromkeys(xs))


def strip_iter(t):
    """iterator plumbing is transparent: &, into_iter"""
    while True:
        if t[0] == "ref":
            t = t[1]
        elif t[0] == "call" and isinstance(t[1], str) and (t[1].endswith("::into_iter")):
            t = t[2][0]
        else:
            return t


def render(ls):
    out = []
    for l in ls.loops:
        out.append("loop %d (parent %s) %s %s" % (l["id"], l["parent"], l["kind"],
                                                  T.fmt(l["source"]) if l["source"] is not None else
                                                  " && ".join(("" if v else "!") + T.fmt(c) for c, v in l["conds"])))
        for c in l["carried"]:
            out.append("    cur%d (%s): init %s ; update %s" % (c["var"], c["name"], " | ".join(T.fmt(x) for x in c["init"]),
                                                                  " | ".join(T.fmt(x) for x in c["update"])))
    for e in ls.events:
        out.append("event in loop %s: %s(%s)" % (e["loop"], e["sink"], ", ".join(T.fmt(a) for a in e["args"])))
    return "\n".join(out)


def apply_roles(t, roles):
    """roles: dict term -> role name; larger patterns are replaced first (each in its own bottom-up pass)"""
    pats = sorted(roles.items(), key=lambda kv: -len(repr(kv[0])))
    big = [kv for kv in pats if len(repr(kv[0])) > 40]
    for pat, name in big:
        t = T.map_term(t, lambda x, pat=pat, name=name: ("role", name) if x == pat else x)

    def f(x):
        r = roles.get(x)
        if r is not None:
            return ("role", r)
        if x[0] == "phi":
            u = tuple(sorted(set(x[1]), key=repr))
            if len(u) == 1:
                return u[0]
            return ("phi", u)
        return x
    return T.normalise(T.strip_casts(T.map_term(t, f)))


def is_junk(t):
    """unit-typed temporaries and uninitialised placeholders are not loop state"""
    for s in T.subterms(t):
        if s[0] in ("uninit",) or (s[0] == "unk" and str(s[1]).startswith("const:()")):
            return True
    return False


def linear(t):
    """canonical form of an integer sum: addends flattened, equal terms cancelled, constants folded"""
    coef = {}
    const = [0]

    def go(x, sgn):
        if x[0] == "op" and x[1] == "Add":
            go(x[2], sgn)
            go(x[3], sgn)
        elif x[0] == "op" and x[1] == "Sub":
            go(x[2], sgn)
            go(x[3], -sgn)
        elif x[0] == "const" and isinstance(x[1], int):
            const[0] += sgn * x[1]
        else:
            coef[x] = coef.get(x, 0) + sgn
    go(t, 1)
    pos = sorted((k for k, v in coef.items() for _ in range(v) if v > 0), key=repr)
    neg = sorted((k for k, v in coef.items() for _ in range(-v) if v < 0), key=repr)
    out = None
    for k in pos:
        out = k if out is None else ("op", "Add", out, k)
    if const[0] > 0 or out is None:
        c = ("const", max(const[0], 0) if out is None and const[0] < 0 else const[0])
        if out is None:
            out = ("const", const[0])
        else:
            out = ("op", "Add", out, ("const", const[0]))
    elif const[0] < 0:
        out = ("op", "Sub", out, ("const", -const[0]))
    for k in neg:
        out = ("op", "Sub", out, k)
    return T.normalise(out)


class _View:
    """a LoopSummary-shaped value (loops, events) after a rewriting pass"""
    def __init__(self, loops, events):
        self.loops = loops
        self.events = events


def unrolled(ls, max_count=8):
    """loops with a small constant trip count and no inner loop are replaced by their iterations: the emitted operations are
    replicated, the loop-carried values substituted (v0 = init, v(k+1) = update[v(k)]), later uses get the final value.
    `for _ in 0..2 { b = (b + a) % S; set(b, i) }` and the same two steps written out are then the same summary."""
    loops = [dict(l) for l in ls.loops]
    events = [dict(e) for e in ls.events]
    RANGE = ("agg", "adt:std::ops::Range", (("const", T.V("a")), ("const", T.V("b"))))
    alive = [True] * len(loops)
    changed = True
    while changed:
        changed = False
        for j, l in enumerate(loops):
            if not alive[j] or l["kind"] != "for" or l["source"] is None or l["conds"]:
                continue
            m = T.match(RANGE, T.normalise(T.strip_casts(l["source"])))
            if m is None or not isinstance(m["a"], int) or not isinstance(m["b"], int):
                continue
            cnt = m["b"] - m["a"]
            if not (0 < cnt <= max_count):
                continue
            if any(alive[i] and k["parent"] == l["id"] for i, k in enumerate(loops)):
                continue
            carried = [c for c in l["carried"] if not any(is_junk(x) for x in c["init"] + c["update"])]
            if any(len(c["init"]) != 1 or len(c["update"]) != 1 for c in carried):
                continue
            lid = l["id"]

            def subst(t, env, itemval):
                def f(x):
                    if x[0] == "cur" and len(x) > 1 and x[1] in env:
                        return env[x[1]]
                    if x[0] == "item" and len(x) > 1 and x[1] == lid and itemval is not None:
                        return itemval
                    return x
                return T.map_term(t, f)
            vals = {c["var"]: c["init"][0] for c in carried}
            seq = [e for e in events if e["loop"] == lid]
            pos = min([i for i, e in enumerate(events) if e["loop"] == lid] or [len(events)])
            new = []
            for k in range(cnt):
                iv = ("const", m["a"] + k)
                for e in seq:
                    ne = dict(e)
                    ne["loop"] = l["parent"]
                    ne["args"] = tuple(subst(a, vals, iv) for a in e["args"])
                    new.append(ne)
                vals = {c["var"]: subst(c["update"][0], vals, iv) for c in carried}
            rest = [e for e in events if e["loop"] != lid]
            npos = sum(1 for e in events[:pos] if e["loop"] != lid)
            events = rest[:npos] + new + rest[npos:]
            # final values for everything after / around the loop
            for e in events:
                if e not in new:
                    e["args"] = tuple(subst(a, vals, None) for a in e["args"])
            for i, k in enumerate(loops):
                if not alive[i] or i == j:
                    continue
                k["source"] = subst(k["source"], vals, None) if k["source"] is not None else None
                k["conds"] = [(subst(c, vals, None), v) for c, v in k["conds"]]
                k["carried"] = [dict(c, init=[subst(x, vals, None) for x in c["init"]], update=[subst(x, vals, None) for x in c["update"]])
                                for c in k["carried"]]
            alive[j] = False
            changed = True
            break
    if all(alive):
        return ls
    remap = {}
    for i, l in enumerate(loops):
        if alive[i]:
            remap[l["id"]] = len(remap)

    def ren(t):
        def f(x):
            if x[0] == "item" and len(x) > 1 and x[1] in remap:
                return ("item", remap[x[1]])
            return x
        return T.map_term(t, f) if t is not None else None
    out_loops = []
    for i, l in enumerate(loops):
        if not alive[i]:
            continue
        nl = dict(l)
        nl["id"] = remap[l["id"]]
        nl["parent"] = remap.get(l["parent"]) if l["parent"] is not None else None
        nl["source"] = ren(l["source"])
        nl["conds"] = [(ren(c), v) for c, v in l["conds"]]
        nl["carried"] = [dict(c, init=[ren(x) for x in c["init"]], update=[ren(x) for x in c["update"]]) for c in l["carried"]]
        out_loops.append(nl)
    out_events = []
    for e in events:
        ne = dict(e)
        ne["loop"] = remap.get(e["loop"]) if e["loop"] is not None else None
        ne["args"] = tuple(ren(a) for a in e["args"])
        out_events.append(ne)
    return _View(out_loops, out_events)


def ascending(ls):
    """descending range loops in ascending form: `for j in (lo..=hi).rev()` is `for t in lo..=hi` with j = hi + lo - t
    (and hi - 1 + lo - t for an exclusive range), which is also how the loop reads when written with an explicit offset."""
    REV = ("call", "std::iter::Iterator::rev", (T.V("s"),))
    todo = []
    for l in ls.loops:
        if l["kind"] != "for" or l["source"] is None:
            continue
        m = T.match(REV, l["source"])
        if m is None:
            continue
        src = m["s"]
        while src[0] in ("ref",):
            src = src[1]
        inc = T.match(("call", "std::ops::RangeInclusive::<Idx>::new", (T.V("lo"), T.V("hi"))), src)
        exc = T.match(("agg", "adt:std::ops::Range", (T.V("lo"), T.V("hi"))), src)
        if inc is not None:
            todo.append((l["id"], src, ("op", "Sub", ("op", "Add", inc["hi"], inc["lo"]), ("item", l["id"]))))
        elif exc is not None:
            todo.append((l["id"], src, ("op", "Sub", ("op", "Add", ("op", "Sub", exc["hi"], ("const", 1)), exc["lo"]), ("item", l["id"]))))
    if not todo:
        return ls
    loops = [dict(l) for l in ls.loops]
    events = [dict(e) for e in ls.events]
    for lid, src, val in todo:
        val = T.normalise(val)

        def sub(t, lid=lid, val=val):
            if t is None:
                return None
            return T.map_term(t, lambda x: val if x == ("item", lid) else x)
        for l in loops:
            if l["id"] == lid:
                l["source"] = src
            else:
                l["source"] = sub(l["source"])
            l["conds"] = [(sub(c), v) for c, v in l["conds"]]
            l["carried"] = [dict(c, init=[sub(x) for x in c["init"]], update=[sub(x) for x in c["update"]]) for c in l["carried"]]
        for e in events:
            e["args"] = tuple(sub(a) for a in e["args"])
    return _View(loops, events)


def signature(ls, roles, event_norm=None):
    """canonical, comparable form of a LoopSummary (descending ranges ascending, small constant loops unrolled,
    counting loops by their count)"""
    ls = ascending(ls)
    ls = unrolled(ls)
    cur_map = {}

    def recur(t):
        def f(x):
            if x[0] == "cur":
                if x[1] not in cur_map:
                    cur_map[x[1]] = len(cur_map)
                return ("cur", cur_map[x[1]])
            return x
        return T.map_term(t, f)
    loops_out = []
    for l in ls.loops:
        carried = []
        for c in l["carried"]:
            ini = [apply_roles(x, roles) for x in c["init"]]
            upd = [apply_roles(x, roles) for x in c["update"]]
            if any(is_junk(x) for x in ini + upd):
                continue
            carried.append((c["var"], ini, upd))
        loops_out.append([l["parent"], l["kind"], apply_roles(l["source"], roles) if l["source"] is not None else None,
                          [T.canon_cond(apply_roles(c, roles), v) for c, v in l["conds"]], carried])
    events = []
    for e in ls.events:
        ev = (e["sink"], tuple(apply_roles(a, roles) for a in e["args"]))
        if event_norm is not None:
            ev = event_norm(ev)
            if ev is None:
                continue
        events.append((e["loop"], ev[0], ev[1]))
    # a loop whose item is never used only counts: Range(lo, hi) becomes ("count", hi - lo)
    for i, L in enumerate(loops_out):
        src = L[2]
        if src is None:
            continue
        it = ("item", i)
        used = any(T.find(it, a) is not None for _, _, args in events for a in args)
        for L2 in loops_out:
            for x in [L2[2]] + [c for c, _ in L2[3]] + [y for _, ini, upd in L2[4] for y in ini + upd]:
                if x is not None and T.find(it, x) is not None:
                    used = True
        m = T.match(("agg", "adt:std::ops::Range", (T.V("lo"), T.V("hi"))), src)
        if not used and m is not None:
            L[2] = ("count", linear(("op", "Sub", m["hi"], m["lo"])))
    # renumber cur ids in order of appearance: loops first (carried order), then events
    sig_loops = []
    for parent, kind, src, conds, carried in loops_out:
        cs = []
        for var, ini, upd in carried:
            if var not in cur_map:
                cur_map[var] = len(cur_map)
        sig_loops.append((parent, kind, recur(src) if src is not None else None,
                          tuple((recur(c), v) for c, v in conds),
                          tuple((cur_map[var], tuple(sorted((recur(x) for x in ini), key=repr)),
                                 tuple(sorted((recur(x) for x in upd), key=repr))) for var, ini, upd in carried)))
    sig_events = tuple((lp, s, tuple(recur(a) for a in args)) for lp, s, args in events)
    return {"loops": tuple(sig_loops), "events": sig_events}


def diff_signatures(a, b):
    """list of human-readable differences (empty = equal)"""
    out = []
    if len(a["loops"]) != len(b["loops"]):
        out.append("number of loops differs: %d vs %d" % (len(a["loops"]), len(b["loops"])))
    for i, (x, y) in enumerate(zip(a["loops"], b["loops"])):
        if x == y:
            continue
        names = ("parent", "kind", "iteration source", "continuation conditions", "loop-carried updates")
        for n, u, v in zip(names, x, y):
            if u != v:
                out.append("loop %d: %s differs: %s  vs  %s" % (i, n, fmt_any(u), fmt_any(v)))
    if len(a["events"]) != len(b["events"]):
        out.append("number of emitted operations differs: %d vs %d" % (len(a["events"]), len(b["events"])))
    for i, (x, y) in enumerate(zip(a["events"], b["events"])):
        if x != y:
            out.append("operation %d differs: %s  vs  %s" % (i, fmt_any(x), fmt_any(y)))
    return out


def fmt_any(x):
    if isinstance(x, tuple) and x and isinstance(x[0], str) and x[0] in ("op", "role", "cur", "const", "call", "ite", "phi", "field", "param", "index", "cast", "agg", "ceildiv", "deref", "ref", "len"):
        return fmt_role(x)
    if isinstance(x, (tuple, list)):
        return "(" + ", ".join(fmt_any(y) for y in x) + ")"
    return str(x)


def fmt_role(t):
    def f(x):
        return x
    s = T.fmt(t)
    return s


# teach the term formatter about roles / cur
_old_fmt = T.fmt


def _fmt(t, depth=0):
    if isinstance(t, tuple) and t:
        if t[0] == "role":
            return str(t[1])
        if t[0] == "cur":
            return "cur%d" % t[1] if len(t) > 1 else "cur"
        if t[0] == "item" and len(t) == 1:
            return "item"
        if t[0] == "item" and isinstance(t[1], int):
            return "item%d" % t[1]
        if t[0] == "ceildiv":
            return "ceil(%s / %s)" % (_fmt(t[1]), _fmt(t[2]))
        if t[0] == "sym":
            return str(t[1])
    return _old_fmt(t, depth)


T.fmt = _fmt


def rewrite(t, rules):
    """bottom-up rewriting: rules = [(pattern, builder(env) -> term)]"""
    def f(x):
        for pat, build in rules:
            e = T.match(pat, x)
            if e is not None:
                return build(e)
        return x
    return T.map_term(t, f)


def rewrite_signature(sig, rules):
    def rw(x):
        if isinstance(x, tuple) and x and isinstance(x[0], str):
            return T.normalise(rewrite(x, rules))
        if isinstance(x, tuple):
            return tuple(rw(y) for y in x)
        if isinstance(x, list):
            return [rw(y) for y in x]
        return x
    return {"loops": rw(sig["loops"]), "events": rw(sig["events"])}


def anonymise(sig):
    """identity-free view of a signature: which variable carries a value and how exits merge is forgotten,
    the formulas (updates, loop conditions, emitted terms, iteration sources, nesting depth) are kept.
    Used only to compare a function whose helpers were inlined (extra copies of loop variables) with its reference."""
    def A(t):
        def f(x):
            if x[0] == "cur":
                return ("cur",)
            if x[0] == "item":
                return ("item",)
            if x[0] == "ite":
                x = ("phi", (x[2], x[3]))
            if x[0] == "phi":
                flat = []
                for y in x[1]:
                    if isinstance(y, tuple) and y and y[0] == "phi":
                        flat.extend(y[1])
                    else:
                        flat.append(y)
                u = tuple(sorted(set(flat), key=repr))
                return u[0] if len(u) == 1 else ("phi", u)
            return x
        return T.normalise(T.map_term(t, f))

    def depth(i):
        d = 0
        p = sig["loops"][i][0]
        while p is not None:
            d += 1
            p = sig["loops"][p][0]
        return d
    loops_ = sorted(((depth(i), l[1], A(l[2]) if l[2] is not None else None, tuple(sorted(((A(c), v) for c, v in l[3]), key=repr)))
                     for i, l in enumerate(sig["loops"])), key=repr)
    updates = sorted({A(u) for l in sig["loops"] for (_, ini, upd) in l[4] for u in upd}, key=repr)
    inits = sorted({A(u) for l in sig["loops"] for (_, ini, upd) in l[4] for u in ini}, key=repr)
    events = [(depth(lp) + 1 if lp is not None else 0, s, tuple(A(a) for a in args)) for lp, s, args in sig["events"]]
    return {"loops": loops_, "updates": updates, "events": events}


def diff_anonymised(a, b):
    x, y = anonymise(a), anonymise(b)
    out = []
    if x["loops"] != y["loops"]:
        out.append("loops (nesting, kind, source, condition) differ: %s  vs  %s" % (fmt_any(tuple(x["loops"]))[:300], fmt_any(tuple(y["loops"]))[:300]))
    if x["updates"] != y["updates"]:
        out.append("loop-carried update formulas differ: %s  vs  %s" % (fmt_any(tuple(x["updates"]))[:300], fmt_any(tuple(y["updates"]))[:300]))
    if x["events"] != y["events"]:
        for i, (p, q) in enumerate(zip(x["events"], y["events"])):
            if p != q:
                out.append("operation %d differs: %s  vs  %s" % (i, fmt_any(p)[:200], fmt_any(q)[:200]))
        if len(x["events"]) != len(y["events"]):
            out.append("number of emitted operations differs")
    return out
