"""entry point: python3 -m sa.main <Cxx> quick|thorough | --replay <file>"""
import importlib
import os
import sys
import traceback

from . import common, mir

PROPS = {
    "C10": "c10_prop",
    "C15": "c15_prop",
}


def main(argv):
    if len(argv) < 2:
        print("usage: check <Cxx> quick|thorough | --replay <file>")
        return 2
    pid = argv[0]
    tier = argv[1]
    replay = None
    if tier == "--replay":
        replay = argv[2] if len(argv) > 2 else None
        tier = os.environ.get("VERIF_TIER", "quick")
    if tier not in ("quick", "thorough"):
        tier = "quick"
    try:
        mod = importlib.import_module("sa.props." + pid.lower())
    except ModuleNotFoundError:
        print("unknown property %s" % pid)
        return 2
    try:
        return mod.run(tier, replay)
    except mir.FactsError as e:
        return common.internal_error(pid, str(e))
    except Exception:
        traceback.print_exc()
        return common.internal_error(pid, "internal error in the checker (see traceback)")


if __name__ == "__main__":
    sys.exit(main(sys.argv[1:]))
