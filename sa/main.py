"""entry point: python3 -m sa.main <Cxx> quick|thorough | --replay <file>"""
import importlib
import os
import sys
import traceback

from . import common, mir

PROPS = {
    "C10": "c10_prop",
    "C15": "c15_prop",
}


def main(argv):
    if len(argv) < 2:
        print("usage: check <Cxx> quick|thorough | --replay <file>")
        return 2
    pid = argv[0]
    tier = argv[1]
    replay = None
    if tier == "--replay":
        replay = argv[2] if len(argv) > 2 else None
        tier = os.environ.get("VERIF_TIER", "quick")
    if tier not in ("quick", "thorough"):
        tier = "quick"
    try:
        mod = importlib.import_module("sa.props." + pid.lower())
    except ModuleNotFoundError:
        print("unknown property %s" % pid)
        return 2
    try:
        if replay:
            return do_replay(mod, pid, tier, replay)
        return mod.run(tier, replay)
    except mir.FactsError as e:
        return common.internal_error(pid, str(e))
    except Exception:
        traceback.print_exc()
        return common.internal_error(pid, "internal error in the checker (see traceback)")


def do_replay(mod, pid, tier, path):
    """re-derive the obligation recorded in a replay file on the current tree and explain it"""
    import io, json, contextlib
    try:
        rec = json.load(open(path))
    except Exception as e:
        print("cannot read replay file %s: %s" % (path, e))
        return 2
    key = rec.get("key")
    print("replaying %s (recorded: %s)" % (key, rec.get("msg")))
    buf = io.StringIO()
    with contextlib.redirect_stdout(buf):
        rc = mod.run(rec.get("tier", tier), None)
    out = buf.getvalue()
    still = [l for l in out.splitlines() if l.strip().startswith("violated: " + str(key))]
    ev = json.load(open(os.path.join(common.EVID_DIR, "%s.json" % pid)))
    for o in ev["coverage"].get("samples", []):
        if not o.get("ok") and (rec.get("rule") == o.get("rule")) and rec.get("msg") == o.get("what"):
            print("  where : %s" % o.get("where"))
            print("  detail: %s" % json.dumps(o.get("detail"))[:1500])
    if still:
        print("  status: STILL VIOLATED on the current tree")
        print("VIOLATION property=%s replay=%s" % (pid, path))
        return 1
    print("  status: this obligation is discharged on the current tree (overall check exit code %d)" % rc)
    return 0


if __name__ == "__main__":
    sys.exit(main(sys.argv[1:]))
