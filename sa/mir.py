"""Fact loading and CFG utilities (engine B core).

Facts are produced by the rqfacts driver (one JSON per cargo configuration).
Nothing in here executes repository code.
"""
import hashlib
import json
import os
import subprocess
import sys

HERE = os.path.dirname(os.path.abspath(__file__))
VERIF = os.path.dirname(HERE)
REPO = os.environ.get("VERIF_REPO", "/repo")
CACHE = os.path.join(VERIF, ".cache")

CONFIGS = ["dev-std", "rel-std", "dev-nostd", "rel-nostd", "dev-bench", "dev-serde"]


def tree_key(src=REPO):
    """sha256 over everything that can influence the facts of the library."""
    h = hashlib.sha256()
    paths = []
    for root, dirs, files in os.walk(os.path.join(src, "src")):
        dirs.sort()
        for f in sorted(files):
            paths.append(os.path.join(root, f))
    for extra in ("Cargo.toml", "Cargo.lock"):
        p = os.path.join(src, extra)
        if os.path.exists(p):
            paths.append(p)
    drv = os.path.join(VERIF, "rqfacts", "target", "release", "rqfacts")
    if os.path.exists(drv):
        paths.append(drv)
    paths.append(os.path.join(HERE, "facts.sh"))
    for p in paths:
        h.update(os.path.relpath(p, src).encode() if p.startswith(src) else os.path.basename(p).encode())
        h.update(b"\0")
        with open(p, "rb") as fh:
            h.update(fh.read())
        h.update(b"\0")
    return h.hexdigest()[:24]


_loaded = {}


def facts_path(cfg, src=REPO, crate="raptorq"):
    key = tree_key(src)
    d = os.path.join(CACHE, key)
    return os.path.join(d, "%s.%s.json" % (crate, cfg))


def ensure_facts(cfgs, src=REPO, crate="raptorq"):
    """Build (in parallel) the fact files that are missing for the current tree."""
    missing = []
    for c in cfgs:
        p = facts_path(c, src, crate)
        if not os.path.exists(p):
            missing.append((c, p))
    procs = []
    for c, p in missing:
        os.makedirs(os.path.dirname(p), exist_ok=True)
        procs.append((c, p, subprocess.Popen([os.path.join(HERE, "facts.sh"), src, c, p, crate],
                                             stdout=subprocess.PIPE, stderr=subprocess.STDOUT)))
    for c, p, pr in procs:
        out, _ = pr.communicate()
        if pr.returncode != 0 or not os.path.exists(p):
            sys.stdout.write(out.decode(errors="replace"))
            raise FactsError("cannot build facts for configuration %s (the tree does not compile?)" % c)
    _prune_cache()


def _prune_cache(keep=int(os.environ.get("VERIF_CACHE_KEEP", "6"))):
    try:
        ds = [os.path.join(CACHE, d) for d in os.listdir(CACHE)]
        ds = [d for d in ds if os.path.isdir(d)]
        ds.sort(key=lambda d: os.path.getmtime(d))
        import shutil
        for d in ds[:-keep]:
            shutil.rmtree(d, ignore_errors=True)
    except OSError:
        pass


class FactsError(Exception):
    pass


def load(cfg, src=REPO, crate="raptorq"):
    k = (cfg, src, crate)
    if k in _loaded:
        return _loaded[k]
    ensure_facts([cfg], src, crate)
    with open(facts_path(cfg, src, crate)) as fh:
        d = json.load(fh)
    c = Crate(d, cfg)
    _loaded[k] = c
    return c


class Crate:
    def __init__(self, d, cfg):
        self.d = d
        self.cfg = cfg
        self.fns = {}
        for f in d["fns"]:
            fn = Fn(f, self)
            # closures in generic fns may collide on path; keep first, add suffix to others
            p = fn.path
            n = 1
            while p in self.fns:
                n += 1
                p = "%s#%d" % (fn.path, n)
            fn.key = p
            self.fns[p] = fn
        self.consts = {c["path"]: c for c in d["consts"]}
        self.adts = {a["path"]: a for a in d["adts"]}
        self.impls = d["impls"]

    def fn(self, path):
        return self.fns[path]

    def find_fns(self, pred):
        return [f for f in self.fns.values() if pred(f)]

    def const_value(self, path):
        return self.consts[path]["value"]

    def lib_fns(self):
        """functions that are not part of #[cfg(test)] modules (facts come from a
        non-test build, so everything is library code)"""
        return list(self.fns.values())


class Fn:
    def __init__(self, f, crate):
        self.f = f
        self.crate = crate
        self.path = f["path"]
        self.key = self.path
        self.mir = f["mir"]
        self.blocks = self.mir["blocks"]
        self.locals = self.mir["locals"]
        self.argc = self.mir["argc"]
        self.file = f["sp"]["file"]
        self.line = f["sp"]["l0"]
        self._cfg = None

    def __repr__(self):
        return "<Fn %s>" % self.path

    @property
    def cfg(self):
        if self._cfg is None:
            self._cfg = CFG(self)
        return self._cfg

    def loc(self, sp=None):
        sp = sp or self.f["sp"]
        if sp.get("exp") and False:
            pass
        return "%s:%d" % (sp["file"], sp["l0"])

    def local_name(self, i):
        return self.locals[i].get("name")

    def local_ty(self, i):
        return self.locals[i]["ty"]

    def calls(self):
        """yield (block index, terminator) for every call terminator in non-cleanup blocks"""
        for b in self.blocks:
            if b["cleanup"]:
                continue
            t = b["term"]
            if t["t"] == "call":
                yield b["i"], t


def term_succs(t, with_unwind=False):
    k = t["t"]
    out = []
    if k == "goto":
        out = [t["target"]]
    elif k == "switch":
        out = [a[1] for a in t["arms"]] + [t["otherwise"]]
    elif k in ("call", "drop", "assert"):
        if t.get("target") is not None:
            out = [t["target"]]
        if with_unwind and t.get("unwind") is not None:
            out.append(t["unwind"])
    return out


class CFG:
    """control-flow graph over non-cleanup blocks (panic/unwind edges are not
    followed: a path that panics does not reach a return)."""

    def __init__(self, fn):
        self.fn = fn
        n = len(fn.blocks)
        self.n = n
        self.succ = [[] for _ in range(n)]
        self.pred = [[] for _ in range(n)]
        for b in fn.blocks:
            if b["cleanup"]:
                continue
            i = b["i"]
            ss = []
            for s in term_succs(b["term"]):
                if s not in ss:
                    ss.append(s)
            self.succ[i] = ss
            for s in ss:
                self.pred[s].append(i)
        self.reach = self._reach(0)
        self.rpo = self._rpo()
        self._idom = None
        self._ipdom = None

    def _reach(self, start):
        seen = {start}
        st = [start]
        while st:
            x = st.pop()
            for s in self.succ[x]:
                if s not in seen:
                    seen.add(s)
                    st.append(s)
        return seen

    def _rpo(self):
        seen = set()
        order = []
        # iterative DFS postorder
        st = [(0, iter(self.succ[0]))]
        seen.add(0)
        while st:
            node, it = st[-1]
            adv = False
            for s in it:
                if s not in seen:
                    seen.add(s)
                    st.append((s, iter(self.succ[s])))
                    adv = True
                    break
            if not adv:
                order.append(node)
                st.pop()
        order.reverse()
        return order

    # -- dominators (Cooper-Harvey-Kennedy) --------------------------------
    @property
    def idom(self):
        if self._idom is None:
            self._idom = self._compute_idom(self.rpo, self.pred, 0)
        return self._idom

    @staticmethod
    def _compute_idom(rpo, pred, entry):
        idx = {b: i for i, b in enumerate(rpo)}
        idom = {entry: entry}
        changed = True

        def intersect(a, b):
            while a != b:
                while idx[a] > idx[b]:
                    a = idom[a]
                while idx[b] > idx[a]:
                    b = idom[b]
            return a

        while changed:
            changed = False
            for b in rpo:
                if b == entry:
                    continue
                new = None
                for p in pred[b]:
                    if p in idom and p in idx:
                        new = p if new is None else intersect(p, new)
                if new is not None and idom.get(b) != new:
                    idom[b] = new
                    changed = True
        return idom

    def dominates(self, a, b):
        """block a dominates block b"""
        idom = self.idom
        if b not in idom:
            return False
        while True:
            if a == b:
                return True
            nb = idom[b]
            if nb == b:
                return False
            b = nb

    def exits(self):
        out = []
        for b in self.fn.blocks:
            if b["cleanup"] or b["i"] not in self.reach:
                continue
            if b["term"]["t"] == "return":
                out.append(b["i"])
        return out

    @property
    def ipdom(self):
        """immediate post-dominators w.r.t. a virtual exit joining all Return blocks
        (diverging blocks — panics, unreachable — are ignored)."""
        if self._ipdom is None:
            EXIT = -1
            succ = {}
            pred = {}
            nodes = [b for b in self.reach]
            can = self._can_reach_exit()
            for b in nodes:
                if b not in can:
                    continue
                ss = [s for s in self.succ[b] if s in can]
                if self.fn.blocks[b]["term"]["t"] == "return":
                    ss = [EXIT]
                succ[b] = ss
            succ[EXIT] = []
            # reversed graph: pred of reversed = succ of original
            rpred = {b: list(ss) for b, ss in succ.items()}  # preds in reversed graph
            rsucc = {b: [] for b in succ}
            for b, ss in succ.items():
                for s in ss:
                    rsucc[s].append(b)
            # rpo on reversed graph from EXIT
            seen = {EXIT}
            order = []
            st = [(EXIT, iter(rsucc[EXIT]))]
            while st:
                node, it = st[-1]
                adv = False
                for s in it:
                    if s not in seen:
                        seen.add(s)
                        st.append((s, iter(rsucc[s])))
                        adv = True
                        break
                if not adv:
                    order.append(node)
                    st.pop()
            order.reverse()
            self._ipdom = self._compute_idom(order, rpred, EXIT)
        return self._ipdom

    def _can_reach_exit(self):
        can = set(self.exits())
        st = list(can)
        while st:
            x = st.pop()
            for p in self.pred[x]:
                if p not in can:
                    can.add(p)
                    st.append(p)
        return can

    def postdominates(self, a, b):
        """block a post-dominates block b (on paths that reach a Return)"""
        ip = self.ipdom
        if b not in ip:
            return False
        while True:
            if a == b:
                return True
            nb = ip[b]
            if nb == b or nb == -1:
                return False
            b = nb

    def reachable_from(self, start, avoid=()):
        """blocks reachable from `start` (inclusive) without entering a block of `avoid`"""
        avoid = set(avoid)
        if start in avoid:
            return set()
        seen = {start}
        st = [start]
        while st:
            x = st.pop()
            for s in self.succ[x]:
                if s not in seen and s not in avoid:
                    seen.add(s)
                    st.append(s)
        return seen

    def loops(self):
        """natural loops: {header: set(body blocks)}"""
        out = {}
        for b in self.reach:
            for s in self.succ[b]:
                if self.dominates(s, b):
                    body = out.setdefault(s, {s})
                    st = [b]
                    while st:
                        x = st.pop()
                        if x not in body:
                            body.add(x)
                            st.extend(self.pred[x])
        return out


# ---------------------------------------------------------------------------
# small helpers on operands / places

def is_const(o):
    return o.get("o") == "const"


def const_int(o):
    if o.get("o") == "const":
        return o.get("v")
    return None


def is_place(o):
    return o.get("o") in ("copy", "move")


def place_key(p):
    """hashable identity of a place (local + projection)"""
    parts = [p["l"]]
    for e in p["proj"]:
        k = e["p"]
        if k == "field":
            parts.append(("f", e["i"]))
        elif k == "deref":
            parts.append("*")
        elif k == "index":
            parts.append(("i", e["l"]))
        elif k == "cindex":
            parts.append(("c", e["off"], e["from_end"]))
        elif k == "downcast":
            parts.append(("d", e["vi"]))
        elif k == "subslice":
            parts.append(("s", e["from"], e["to"], e["from_end"]))
        else:
            parts.append(k)
    return tuple(parts)


def fmt_place(fn, p):
    name = fn.local_name(p["l"]) or "_%d" % p["l"]
    s = name
    for e in p["proj"]:
        k = e["p"]
        if k == "field":
            s += "." + (e.get("name") or str(e["i"]))
        elif k == "deref":
            s = "(*%s)" % s
        elif k == "index":
            s += "[%s]" % (fn.local_name(e["l"]) or "_%d" % e["l"])
        elif k == "cindex":
            s += "[%d]" % e["off"]
        elif k == "downcast":
            s += " as %s" % e["variant"]
        else:
            s += "." + k
    return s


def sp_loc(sp):
    return "%s:%d" % (sp["file"], sp["l0"])


def stmt_loc(x):
    sp = x.get("usp") or x["sp"]
    return "%s:%d" % (sp["file"], sp["l0"])
