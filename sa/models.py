"""Models of the library functions that appear in the analysed cones.

Each model is a transfer function on abstract values; memory-touching
primitives additionally record "mem" obligations (offset + width within the
storage object the pointer was derived from).
"""
import re

from . import mir
from .aff import Aff, IntV, add, sub, mul, div, rem, fits, wrap, norm, le_proved, ty_range, join as ijoin
from . import absint as A


def normpath(p):
    if p is None:
        return None
    if p.startswith("core::") or p.startswith("alloc::"):
        return "std::" + p.split("::", 1)[1]
    return p


VEC_BITS = {"_mm_": 16, "_mm256_": 32, "_mm512_": 64}


def vec_width(name):
    for k, v in VEC_BITS.items():
        if name.startswith(k):
            return v
    return None


def _site(an, fn, t, what):
    """ordinal of this call among the calls to the same callee in fn (stable key)"""
    cache = getattr(fn, "_call_idx", None)
    if cache is None:
        cache = {}
        cnt = {}
        for blk in fn.blocks:
            if blk["cleanup"]:
                continue
            tt = blk["term"]
            if tt["t"] == "call":
                k = tt.get("callee") or "?"
                cache[id(tt)] = cnt.get(k, 0)
                cnt[k] = cnt.get(k, 0) + 1
        fn._call_idx = cache
    return "%s#%d" % (what, cache.get(id(t), -1))


def _blk(fn, t):
    m = getattr(fn, "_term_blk", None)
    if m is None:
        m = {id(b["term"]): b["i"] for b in fn.blocks}
        fn._term_blk = m
    return m.get(id(t), -1)


def byte_len(an, st, oid):
    o = st.heap.get(oid)
    if o is None or o.kind != "slice" or o.len is None or not o.esize:
        return None
    return norm(mul(o.len, IntV.const(o.esize)), an.rng_fn(st))


def mem_access(an, st, fn, t, record, ptr, width, what, write=False):
    """obligation: [ptr.off, ptr.off+width) inside the object"""
    if not record:
        return
    short = (t.get("callee") or "?").split("::")[-1]
    fp = _site(an, fn, t, short)
    if type(ptr) is not A.PtrV:
        an.oblige("mem", fn, fp, False, mir.stmt_loc(t), "%s: pointer provenance unknown" % what, {"ptr": repr(ptr)})
        return
    bl = byte_len(an, st, ptr.obj)
    if bl is None:
        an.oblige("mem", fn, fp, False, mir.stmt_loc(t), "%s: size of the pointed-to storage unknown" % what, None)
        return
    rng = an.rng_fn(st)
    off = norm(ptr.off, rng)
    end = norm(add(off, IntV.const(width)), rng)
    ok = off.nlo >= 0 and le_proved(end, bl, rng)
    an.oblige("mem", fn, fp, ok, mir.stmt_loc(t),
              "%s: %d byte(s) at offset %r within %r bytes" % (what, width, off, bl),
              None if ok else {"offset": repr(off), "end": repr(end), "object_bytes": repr(bl)})
    an.mem_log.append({"fn": fn.key, "site": fp, "obj": ptr.obj, "off": off, "width": width, "write": write,
                       "what": what, "loc": mir.stmt_loc(t), "objname": st.heap[ptr.obj].name})


def slice_of(an, st, v, fn):
    """normalise a value that denotes a slice (SliceV, ref to vec obj, ...) to SliceV"""
    if type(v) is A.SliceV:
        return v
    if type(v) is A.RefV:
        x = an.read_target(st, v.target, fn)
        if type(x) is A.SliceV:
            return A.SliceV(x.obj, x.len, v.mut, x.off)
        if type(x) is A.AggV and x.kind == "array":
            n = len(x.fields)
            oid = an.new_obj(st, A.Obj("slice", an.hull_values(list(x.fields), st) if n else A.TOP, IntV.const(n),
                                       esize=(x.fields[0].bits // 8 if n and type(x.fields[0]) is IntV else 1),
                                       values=list(x.fields)))
            return A.SliceV(oid, IntV.const(n), v.mut)
    return None


def as_int(v, bits=64, signed=False):
    if type(v) is IntV:
        return v
    return IntV.top(bits, signed)


def dest_int_ty(t):
    return A.int_ty_of_str(t["dest"]["ty"])


def call(an, st, fid, fn, t, callee, resolved, args, record):
    c = normpath(callee)
    r = normpath(resolved)
    if c is None:
        return NotImplemented
    rng = an.rng_fn(st)
    dty = t["dest"]["ty"]
    dit = A.int_ty_of_str(dty)

    # ---- integer helpers -------------------------------------------------
    m = re.match(r"^std::num::<impl (u|i)(\d+|size)>::(\w+)$", c)
    if m:
        bits = 64 if m.group(2) == "size" else int(m.group(2))
        signed = m.group(1) == "i"
        name = m.group(3)
        a = as_int(args[0], bits, signed)
        b = as_int(args[1], bits, signed) if len(args) > 1 else None
        if name == "is_multiple_of":
            ra = rem(a, b) if (b.nlo > 0 and a.nlo >= 0) else None
            if ra is not None and ra.is_const():
                z = ra.nlo == 0
                return A.BoolV(z, not z), st
            if b.is_const() and b.nlo == 0:
                return A.BoolV(), st
            return A.BoolV(), st
        if name in ("wrapping_add", "wrapping_sub", "wrapping_mul"):
            rr = {"wrapping_add": add, "wrapping_sub": sub, "wrapping_mul": mul}[name](a, b)
            return wrap(norm(rr.retype(bits, signed), rng), bits, signed), st
        if name == "div_ceil":
            if b.nlo <= 0 or a.nlo < 0:
                if record:
                    an.oblige("panic", fn, _site(an, fn, t, "div_ceil-by-zero"), False, mir.stmt_loc(t),
                              "div_ceil divisor is non-zero", None)
                return IntV.top(bits, signed), st
            return ceil_div(a, b, bits, signed), st
        if name in ("min", "max"):
            return minmax(name, a, b, rng), st
        if name in ("saturating_sub",):
            rr = sub(a, b)
            return IntV(max(0, rr.nlo), max(0, rr.nhi), bits, signed), st
        if name == "abs_diff":
            rr = sub(a, b)
            lo = 0 if (rr.nlo <= 0 <= rr.nhi) else min(abs(rr.nlo), abs(rr.nhi))
            return IntV(lo, max(abs(rr.nlo), abs(rr.nhi)), bits, False), st
        if name in ("trailing_zeros", "leading_zeros", "count_ones"):
            return IntV(0, bits, 32, False), st
        if name in ("pow",):
            return IntV.top(bits, signed), st
        return NotImplemented
    if c in ("std::cmp::min", "std::cmp::max", "std::cmp::Ord::min", "std::cmp::Ord::max"):
        if type(args[0]) is IntV and type(args[1]) is IntV:
            return minmax(c.split("::")[-1], deatom(an, args[0]), deatom(an, args[1]), rng), st
        return an.top_of_str(dty), st
    if c in ("std::convert::Into::into", "std::convert::From::from"):
        a = args[0]
        if dit and type(a) is IntV:
            if fits(a, dit[0], dit[1]):
                return a.retype(dit[0], dit[1]), st
            return IntV.top(dit[0], dit[1]), st
        if dit and type(a) is A.BoolV:
            return IntV(0 if a.f else 1, 1 if a.t else 0, dit[0], dit[1]), st
        if dit:
            return IntV.top(dit[0], dit[1]), st
        return NotImplemented

    # ---- slices / vectors -----------------------------------------------
    if c in ("std::slice::<impl [T]>::len", "std::vec::Vec::<T, A>::len"):
        s = slice_of(an, st, args[0], fn)
        if s is not None:
            return s.len.retype(64, False), st
        return IntV(0, (1 << 63) - 1, 64, False), st
    if c == "std::slice::<impl [T]>::is_empty" or c == "std::vec::Vec::<T, A>::is_empty":
        s = slice_of(an, st, args[0], fn)
        if s is not None:
            return an.cmp_result(st, "Eq", s.len.retype(64, False), IntV.const(0)), st
        return A.BoolV(), st
    if c in ("std::ops::Deref::deref", "std::ops::DerefMut::deref_mut", "std::vec::Vec::<T, A>::as_slice",
             "std::vec::Vec::<T, A>::as_mut_slice", "std::convert::AsRef::as_ref", "std::borrow::Borrow::borrow"):
        s = slice_of(an, st, args[0], fn)
        if s is not None:
            return A.SliceV(s.obj, s.len, c.endswith("mut") or c.endswith("mut_slice"), s.off), st
        return NotImplemented
    if c in ("std::slice::<impl [T]>::as_ptr", "std::slice::<impl [T]>::as_mut_ptr", "std::vec::Vec::<T, A>::as_ptr",
             "std::vec::Vec::<T, A>::as_mut_ptr"):
        s = slice_of(an, st, args[0], fn)
        if s is not None:
            o = st.heap[s.obj]
            off = mul(s.off, IntV.const(o.esize)) if s.off is not None else IntV.const(0)
            return A.PtrV(s.obj, off, o.esize, "mut" in c), st
        return A.TOP, st
    if c in ("std::slice::<impl [T]>::get_unchecked", "std::slice::<impl [T]>::get_unchecked_mut"):
        s = slice_of(an, st, args[0], fn)
        idx = args[1]
        if s is None or type(idx) is not IntV:
            if record:
                an.oblige("mem", fn, _site(an, fn, t, c.split("::")[-1]), False, mir.stmt_loc(t),
                          "get_unchecked: slice or index unknown", {"slice": repr(args[0]), "index": repr(idx)})
            return A.TOP, st
        idx = norm(idx, rng)
        ok = idx.nlo >= 0 and le_proved(idx, s.len, rng, strict=True)
        if record:
            an.oblige("mem", fn, _site(an, fn, t, c.split("::")[-1]), ok, mir.stmt_loc(t),
                      "get_unchecked index %r < len %r" % (idx, s.len),
                      None if ok else {"index": repr(idx), "len": repr(s.len)})
            o = st.heap[s.obj]
            an.mem_log.append({"fn": fn.key, "site": _site(an, fn, t, c.split("::")[-1]), "obj": s.obj,
                               "off": norm(mul(idx, IntV.const(o.esize)), rng), "width": o.esize,
                               "write": c.endswith("_mut"), "what": "get_unchecked", "loc": mir.stmt_loc(t),
                               "objname": o.name, "elem_index": idx})
        ev = an.index_value(st, s, idx)
        if type(ev) is A.SliceV:
            return ev, st
        return A.RefV(("obj", s.obj, (0,)), c.endswith("_mut")), st
    if c in ("std::slice::from_raw_parts", "std::slice::from_raw_parts_mut"):
        p, n = args[0], args[1]
        if type(p) is A.PtrV and type(n) is IntV:
            es = p.esize or 1
            need = norm(mul(n, IntV.const(es)), rng)
            bl = byte_len(an, st, p.obj)
            off = norm(p.off, rng)
            ok = bl is not None and off.nlo >= 0 and le_proved(norm(add(off, need), rng), bl, rng)
            if record:
                an.oblige("mem", fn, _site(an, fn, t, c.split("::")[-1]), ok, mir.stmt_loc(t),
                          "from_raw_parts: %r elements of %d bytes at offset %r within %r bytes" % (n, es, off, bl),
                          None if ok else {"count": repr(n), "offset": repr(off), "object_bytes": repr(bl)})
                an.raw_parts_log.append({"fn": fn.key, "obj": p.obj, "off": off, "bytes": need,
                                         "mut": c.endswith("_mut"), "loc": mir.stmt_loc(t)})
            # view object sharing nothing but the size relation: new storage with element size es
            src = st.heap.get(p.obj)
            view = A.Obj("slice", an.top_of_elem(es), n.retype(64, False), esize=es,
                         name=(src.name or "obj") + "/view%d" % es if src else None)
            vid = an.new_obj(st, view)
            an.views[vid] = (p.obj, off, es)
            return A.SliceV(vid, n.retype(64, False), c.endswith("_mut")), st
        if record:
            an.oblige("mem", fn, _site(an, fn, t, "from_raw_parts"), False, mir.stmt_loc(t),
                      "from_raw_parts: pointer provenance or length unknown", {"ptr": repr(p), "len": repr(n)})
        return A.TOP, st
    if c in ("std::slice::<impl [T]>::iter", "std::slice::<impl [T]>::iter_mut"):
        s = slice_of(an, st, args[0], fn)
        if s is not None:
            return slice_iter(an, st, fn, t, s, c.endswith("iter_mut")), st
        return NotImplemented
    if c == "std::iter::IntoIterator::into_iter":
        a = args[0]
        if type(a) is A.IterV:
            return a, st
        if type(a) is A.AggV and a.name in ("std::ops::Range", "core::ops::Range") and len(a.fields) == 2:
            return range_iter(an, st, a.fields[0], a.fields[1], False, site="%s:bb%d" % (fn.key.split("::")[-1], _blk(fn, t))), st
        s = slice_of(an, st, a, fn)
        if s is not None:
            return slice_iter(an, st, fn, t, s, s.mut), st
        return NotImplemented
    if c == "std::ops::RangeInclusive::<Idx>::new":
        if type(args[0]) is IntV and type(args[1]) is IntV:
            return range_iter(an, st, args[0], args[1], True, site="%s:bb%d" % (fn.key.split("::")[-1], _blk(fn, t))), st
        return NotImplemented
    if c == "std::iter::Iterator::next":
        it = args[0]
        if type(it) is A.RefV:
            it = an.read_target(st, it.target, fn)
        if type(it) is A.AggV and it.name in ("std::ops::Range", "core::ops::Range") and len(it.fields) == 2 \
                and type(it.fields[0]) is IntV and type(it.fields[1]) is IntV:
            it = range_iter(an, st, it.fields[0], it.fields[1], False, site="%s:bb%d" % (fn.key.split("::")[-1], _blk(fn, t)))
        if type(it) is A.IterV:
            if it.kind == "empty":
                return A.none(), st
            item = it.item
            if type(item) is IntV:
                item = item.with_(vn=A.fresh_vn())
            elif type(item) is A.AggV:
                item = A.AggV(item.kind, item.name, [x.with_(vn=A.fresh_vn()) if type(x) is IntV else x for x in item.fields], item.variant)
            return A.opt(item, True), st
        return NotImplemented
    if c == "std::iter::Iterator::rev":
        if type(args[0]) is A.IterV:
            return args[0], st
        return NotImplemented
    if c == "std::iter::Iterator::find":
        # the predicate is a closure analysed as a function of its own; the result is one of the items or None
        it = args[0]
        if type(it) is A.RefV:
            it = an.read_target(st, it.target, fn)
        if type(it) is A.IterV:
            if it.kind == "empty":
                return A.none(), st
            item = it.item
            if type(item) is IntV:
                item = item.with_(vn=A.fresh_vn())
            return A.opt(item, True), st
        return NotImplemented
    if c == "std::option::Option::<T>::unwrap_or":
        v = args[0]
        if type(v) is A.EnumV and type(args[1]) is IntV:
            outs = []
            if 1 in v.variants and type(v.variants[1].fields[0]) is IntV:
                outs.append(v.variants[1].fields[0])
            elif 1 in v.variants:
                return an.top_of_str(dty), st
            if 0 in v.variants:
                outs.append(args[1])
            if not outs:
                return None
            rng = an.rng_fn(st)
            outs = [norm(x, rng) for x in outs]
            lo = min(x.nlo for x in outs)
            hi = max(x.nhi for x in outs)
            return IntV(lo, hi, outs[0].bits, outs[0].signed), st
        return an.top_of_str(dty), st
    if c == "std::iter::Iterator::enumerate":
        it = args[0]
        if type(it) is A.IterV:
            cnt = it.count
            if it.extra and "pos" in it.extra:
                idx = it.extra["pos"]
            elif cnt is not None:
                idx = IntV(0, max(0, cnt.nhi - 1), 64, False, Aff(0), (cnt.shi - 1) if cnt.shi is not None else None)
            else:
                idx = IntV(0, (1 << 63) - 1, 64, False)
            return A.IterV("enumerate", A.AggV("tuple", None, [idx, it.item]), cnt, extra=it.extra), st
        return NotImplemented
    if c == "std::iter::Iterator::take":
        it = args[0]
        n = args[1]
        if type(it) is A.IterV and type(n) is IntV:
            cnt = minmax("min", it.count, n, rng) if it.count is not None else n
            item = it.item
            if it.kind == "enumerate" and type(item) is A.AggV:
                idx = item.fields[0]
                n2 = norm(n, rng)
                hi_aff = None
                if n2.shi is not None and idx.shi is not None:
                    lim = an.loop_atom_info.get(idx.exact().single()[0]) if (idx.exact() is not None and idx.exact().single()) else None
                    old_hi = lim["hi"] if lim else idx.shi
                    # min(len-1, n-1): keep the provably smaller, prefer n-1 when it is provably <= len-1
                    if ((old_hi - (n2.shi - 1)).lo(rng)) >= 0:
                        hi_aff = n2.shi - 1
                    elif (((n2.shi - 1) - old_hi).lo(rng)) >= 0:
                        hi_aff = old_hi
                if hi_aff is not None:
                    base = IntV(0, max(0, min(idx.nhi, n2.nhi - 1)), 64, False, Aff(0), hi_aff)
                    nidx = loop_atom(an, st, "%s:bb%d" % (fn.key.split("::")[-1], _blk(fn, t)), Aff(0), hi_aff, base)
                else:
                    nidx = IntV(0, max(0, min(idx.nhi, n2.nhi - 1)), 64, False, Aff(0), None)
                ref = item.fields[1]
                if type(ref) is A.RefV and len(ref.target) == 3 and ref.target[2] and ref.target[2][0] == "e":
                    ref = A.RefV(("obj", ref.target[1], ("e", nidx)), ref.mut)
                item = A.AggV("tuple", None, [nidx, ref])
            return A.IterV(it.kind, item, cnt, extra=it.extra), st
        return NotImplemented

    # ---- raw pointers -----------------------------------------------------
    if re.match(r"^std::ptr::(const|mut)_ptr::<impl \*(const|mut) T>::(add|offset|wrapping_add)$", c):
        p, n = args[0], args[1]
        if type(p) is A.PtrV and type(n) is IntV:
            q = an.ptr_add(st, p, n)
            if record and c.endswith("::add"):
                bl = byte_len(an, st, p.obj)
                ok = bl is not None and q.off.nlo >= 0 and le_proved(q.off, bl, rng)
                an.oblige("mem", fn, _site(an, fn, t, ("mut" if "mut_ptr" in c else "const") + "_ptr.add"), ok, mir.stmt_loc(t),
                          "ptr.add stays within (or one past) the object: offset %r of %r bytes" % (q.off, bl),
                          None if ok else {"offset": repr(q.off), "object_bytes": repr(bl)})
            return q, st
        if record:
            an.oblige("mem", fn, _site(an, fn, t, "ptr.add"), False, mir.stmt_loc(t),
                      "ptr.add: pointer provenance unknown", {"ptr": repr(p)})
        return A.TOP, st
    if re.match(r"^std::ptr::(const|mut)_ptr::<impl \*(const|mut) T>::cast$", c):
        p = args[0]
        if type(p) is A.PtrV:
            gj = t.get("gargs", [])
            es = an.size_of(gj[1]) if len(gj) > 1 else None
            return A.PtrV(p.obj, p.off, es or p.esize, p.mut), st
        return A.TOP, st
    if re.match(r"^std::ptr::(const|mut)_ptr::<impl \*(const|mut) T>::read_unaligned$", c) or c in ("std::ptr::read_unaligned", "std::ptr::read"):
        p = args[0]
        w = p.esize if type(p) is A.PtrV else 0
        mem_access(an, st, fn, t, record, p, w or 1, "read_unaligned")
        return an.top_of_str(dty), st
    if re.match(r"^std::ptr::mut_ptr::<impl \*mut T>::write_unaligned$", c) or c in ("std::ptr::write_unaligned", "std::ptr::write"):
        p = args[0]
        w = p.esize if type(p) is A.PtrV else 0
        mem_access(an, st, fn, t, record, p, w or 1, "write_unaligned", write=True)
        if type(p) is A.PtrV:
            an.write_target(st, ("obj", p.obj, (0,)), A.TOP, weak=True)
        return A.AggV("tuple", None, []), st

    # ---- x86 intrinsics ---------------------------------------------------
    m = re.match(r"^std::arch::x86(_64)?::(_mm\w+)$", c)
    if m:
        name = m.group(2)
        w = vec_width(name)
        if "_loadu_" in name or "_load_" in name or "_lddqu_" in name:
            mem_access(an, st, fn, t, record, args[0], w, name)
            return A.TOP, st
        if "_storeu_" in name or "_store_" in name:
            mem_access(an, st, fn, t, record, args[0], w, name, write=True)
            if type(args[0]) is A.PtrV:
                an.write_target(st, ("obj", args[0].obj, (0,)), A.TOP, weak=True)
            return A.AggV("tuple", None, []), st
        if "gather" in name or "scatter" in name or "maskload" in name or "maskstore" in name or "stream" in name:
            if record:
                an.oblige("mem", fn, _site(an, fn, t, name), False, mir.stmt_loc(t),
                          "memory intrinsic %s is not modelled" % name, None)
            return A.TOP, st
        return an.top_of_str(dty), st
    if re.match(r"^std::arch::x86(_64)?::_bextr2?_u32$", c):
        return IntV.top(32, False), st
    if c.startswith("std_detect::detect::arch::"):
        return A.BoolV(), st

    # ---- options -----------------------------------------------------------
    if c == "std::option::Option::<T>::is_none" or c == "std::option::Option::<T>::is_some":
        v = args[0]
        if type(v) is A.RefV:
            v = an.read_target(st, v.target, fn)
        if type(v) is A.EnumV:
            some = 1 in v.variants
            non = 0 in v.variants
            if c.endswith("is_none"):
                return A.BoolV(non, some), st
            return A.BoolV(some, non), st
        return A.BoolV(), st
    if c in ("std::option::Option::<T>::unwrap", "std::option::Option::<T>::expect"):
        v = args[0]
        if type(v) is A.EnumV:
            if record and 0 in v.variants:
                an.oblige("panic", fn, _site(an, fn, t, "unwrap-on-None"), False, mir.stmt_loc(t),
                          "Option::unwrap receives Some", None)
            if 1 in v.variants:
                return v.variants[1].fields[0], st
            return None
        if record:
            an.oblige("panic", fn, _site(an, fn, t, "unwrap-on-None"), False, mir.stmt_loc(t),
                      "Option::unwrap receives Some (value unknown)", None)
        return an.top_of_str(dty), st

    # ---- formatting / misc no-ops -------------------------------------------
    if c.startswith("std::fmt::") or c.startswith("std::hint::"):
        return an.top_of_str(dty), st
    if c in ("std::clone::Clone::clone",):
        v = args[0]
        if type(v) is A.RefV:
            x = an.read_target(st, v.target, fn)
            if type(x) in (IntV, A.BoolV, A.AggV):
                return x, st
        return NotImplemented
    if c == "std::mem::size_of":
        gj = t.get("gargs", [])
        sz = an.size_of(gj[0]) if gj else None
        if sz is not None:
            return IntV.const(sz), st
        return NotImplemented
    return NotImplemented


def deatom(an, v):
    """a value that is exactly a loop-item atom, viewed through that atom's own bounds"""
    ex = v.exact() if v.slo is not None else None
    sg = ex.single() if ex is not None else None
    if sg and sg[1] == 1 and sg[2] == 0 and sg[0] in an.loop_atom_info:
        info = an.loop_atom_info[sg[0]]
        return IntV(v.nlo, v.nhi, v.bits, v.signed, info["lo"], info["hi"])
    return v


def slice_iter(an, st, fn, t, s, mut):
    """iterator over a slice: yields a reference to element #pos, pos a position atom in [0, len-1]"""
    o = st.heap[s.obj]
    if type(o.elem) is A.SliceV:
        return A.IterV("slice", o.elem, s.len.retype(64, False))
    ln = norm(s.len, an.rng_fn(st))
    pos = IntV(0, max(0, ln.nhi - 1), 64, False, Aff(0), (ln.shi - 1) if ln.shi is not None else None)
    if ln.shi is not None and s.off is None:
        pos = loop_atom(an, st, "%s:bb%d" % (fn.key.split("::")[-1], _blk(fn, t)), Aff(0), ln.shi - 1, pos)
    return A.IterV("slice", A.RefV(("obj", s.obj, ("e", pos)), mut), s.len.retype(64, False), extra={"pos": pos, "obj": s.obj})


def minmax(name, a, b, rng):
    if name == "min":
        nlo = min(a.nlo, b.nlo)
        nhi = min(a.nhi, b.nhi)
        shi = None
        # either bound is a valid upper bound; keep the provably smaller, else the first symbolic one
        if a.shi is not None and b.shi is not None:
            if (b.shi - a.shi).lo(rng) >= 0:
                shi = a.shi
            elif (a.shi - b.shi).lo(rng) >= 0:
                shi = b.shi
            else:
                shi = a.shi if not a.shi.is_const() else b.shi
        else:
            shi = a.shi if a.shi is not None else b.shi
        slo = None
        if a.slo is not None and b.slo is not None:
            if (b.slo - a.slo).lo(rng) >= 0:
                slo = a.slo
            elif (a.slo - b.slo).lo(rng) >= 0:
                slo = b.slo
        return IntV(nlo, nhi, a.bits, a.signed, slo, shi)
    nlo = max(a.nlo, b.nlo)
    nhi = max(a.nhi, b.nhi)
    slo = None
    if a.slo is not None and b.slo is not None:
        if (a.slo - b.slo).lo(rng) >= 0:
            slo = a.slo
        elif (b.slo - a.slo).lo(rng) >= 0:
            slo = b.slo
    else:
        slo = a.slo if a.slo is not None else b.slo
    shi = None
    if a.shi is not None and b.shi is not None:
        if (a.shi - b.shi).lo(rng) >= 0:
            shi = a.shi
        elif (b.shi - a.shi).lo(rng) >= 0:
            shi = b.shi
    return IntV(nlo, nhi, a.bits, a.signed, slo, shi)


def ceil_div(a, b, bits, signed):
    """ceil(a / b) for a >= 0, b >= 1 (mathematical; the caller decides about narrowing)"""
    lo = -((-a.nlo) // b.nhi)
    hi = -((-a.nhi) // b.nlo)
    slo = shi = None
    if b.is_const():
        k = b.nlo
        # ceil(x/k) = floor((x + k - 1)/k)
        if a.slo is not None:
            slo = (a.slo + (k - 1)).div_exact(k) if all(c % k == 0 for _, c in a.slo.t) else None
        if a.shi is not None:
            shi = (a.shi + (k - 1)).div_exact(k) if all(c % k == 0 for _, c in a.shi.t) else None
    return IntV(lo, hi, bits, signed, slo, shi)


def range_iter(an, st, start, end, inclusive, site=None):
    rng = an.rng_fn(st)
    start = norm(start, rng)
    end = norm(end, rng)
    d = 0 if inclusive else 1
    hi = end.nhi - d
    shi = (end.shi - d) if end.shi is not None else None
    if (le_proved(end, start, rng, strict=inclusive)):
        return A.IterV("empty", IntV(start.nlo, max(start.nlo, hi), start.bits, start.signed), IntV.const(0), True)
    cnt = sub(end, start)
    if inclusive:
        cnt = add(cnt, IntV.const(1))
    cnt = IntV(max(0, cnt.nlo), max(0, cnt.nhi), 64, False, None, cnt.shi)
    item = IntV(start.nlo, max(start.nlo, hi), start.bits, start.signed, start.slo, shi)
    if site is not None and start.slo is not None and shi is not None:
        # the yielded value as an atom of its own: offsets computed from it stay exact (stride analysis)
        item = loop_atom(an, st, site, start.slo, shi, item)
    return A.IterV("range", item, cnt)


def loop_atom(an, st, site, slo, shi, item):
    key = (site, slo, shi)
    a = an.loop_atoms.get(key)
    if a is None:
        a = an.new_atom("i@%s" % (site,), -(1 << 70), 1 << 70)
        an.loop_atoms[key] = a
        an.facts.append(Aff.atom(a) - slo)        # i >= start
        an.facts.append(shi - Aff.atom(a))        # i <= end - 1
        an.loop_atom_info[a] = {"lo": slo, "hi": shi, "site": site}
    rl, rh = an.atoms[a]
    lo = max(rl, item.nlo)
    hi = min(rh, item.nhi)
    st.arng[a] = (lo, hi)
    af = Aff.atom(a)
    return IntV(item.nlo, item.nhi, item.bits, item.signed, af, af)
