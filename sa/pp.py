"""pretty printer for fact-file MIR (developer tool)"""
import sys
from . import mir


def op(o):
    k = o.get("o")
    if k == "const":
        if "fn" in o:
            return "fn:" + o["fn"]
        if "v" in o:
            return "%s_%s" % (o["v"], o["ty"]["s"])
        if "uneval" in o:
            return "const:%s%s" % (o["uneval"], ("#p%d" % o["promoted"]) if "promoted" in o else "")
        if "static" in o:
            return "&static:" + o["static"]
        return "const(%s)" % o.get("txt")
    return ("move " if k == "move" else "") + place(o)


def place(p):
    s = "_%d" % p["l"]
    for e in p["proj"]:
        k = e["p"]
        if k == "field":
            s += ".%s" % (e.get("name") or e["i"])
        elif k == "deref":
            s = "(*%s)" % s
        elif k == "index":
            s += "[_%d]" % e["l"]
        elif k == "cindex":
            s += "[%s%d]" % ("-" if e["from_end"] else "", e["off"])
        elif k == "downcast":
            s = "(%s as %s)" % (s, e["variant"])
        elif k == "subslice":
            s += "[%d..%d%s]" % (e["from"], e["to"], "e" if e["from_end"] else "")
        else:
            s += "." + k
    return s


def rv(r):
    k = r["r"]
    if k == "use":
        return op(r["a"])
    if k == "binop":
        return "%s(%s, %s)" % (r["op"], op(r["a"]), op(r["b"]))
    if k == "unop":
        return "%s(%s)" % (r["op"], op(r["a"]))
    if k == "cast":
        return "%s as %s [%s]" % (op(r["a"]), r["to"]["s"], r["kind"])
    if k == "ref":
        return "&%s%s" % ("mut " if r["mut"] else "", place(r["p"]))
    if k == "rawptr":
        return "&raw %s %s" % (r["kind"], place(r["p"]))
    if k == "discr":
        return "discr(%s)" % place(r["p"])
    if k == "aggregate":
        nm = r["agg"]
        if nm == "adt":
            nm = r["adt"] + "::" + r["variant"]
        elif nm == "closure":
            nm = "closure:" + r["def"]
        return "%s{%s}" % (nm, ", ".join(op(o) for o in r["ops"]))
    if k == "repeat":
        return "[%s; %s]" % (op(r["a"]), r["n"])
    return k + ":" + str(r.get("txt"))


def term(t):
    k = t["t"]
    if k == "goto":
        return "goto bb%d" % t["target"]
    if k == "switch":
        return "switch %s [%s, else bb%d]" % (op(t["discr"]), ", ".join("%d:bb%d" % (a, b) for a, b in t["arms"]), t["otherwise"])
    if k == "call":
        c = t.get("callee_full") or ("<indirect %s>" % op(t["fnop"]))
        r = t.get("resolved")
        extra = ""
        if r and r != t.get("callee"):
            extra = " [=> %s]" % r
        if t.get("callee_tf"):
            extra += " tf=%s" % ",".join(t["callee_tf"])
        return "%s = %s(%s)%s -> %s" % (place(t["dest"]), c, ", ".join(op(a) for a in t["args"]), extra,
                                        ("bb%d" % t["target"]) if t["target"] is not None else "!")
    if k == "assert":
        return "assert(%s%s) %s(%s) -> bb%d" % ("" if t["expected"] else "!", op(t["cond"]), t["kind"],
                                                ", ".join(op(o) for o in t["ops"]), t["target"])
    if k == "drop":
        return "drop(%s) -> bb%d" % (place(t["p"]), t["target"])
    return k


def dump(fn, out=sys.stdout):
    f = fn.f
    out.write("fn %s  [%s:%d] unsafe=%s tf=%s\n" % (fn.path, fn.file, fn.line, f.get("unsafe"), f.get("target_features")))
    for l in fn.locals:
        out.write("   let _%d: %s%s\n" % (l["i"], l["ty"]["s"], ("  // " + l["name"]) if l.get("name") else ""))
    for b in fn.blocks:
        if b["cleanup"]:
            continue
        out.write(" bb%d:\n" % b["i"])
        for s in b["stmts"]:
            ln = (s.get("usp") or s["sp"])["l0"]
            if s["s"] == "assign":
                out.write("    %s = %s    // L%d\n" % (place(s["lhs"]), rv(s["rv"]), ln))
            else:
                out.write("    %s %s   // L%d\n" % (s["s"], s.get("txt", ""), ln))
        t = b["term"]
        out.write("    %s    // L%d\n" % (term(t), (t.get("usp") or t["sp"])["l0"]))
    for i, pb in enumerate(f["promoted"]):
        out.write("  promoted[%d]:\n" % i)
        for b in pb["blocks"]:
            for s in b["stmts"]:
                if s["s"] == "assign":
                    out.write("      %s = %s\n" % (place(s["lhs"]), rv(s["rv"])))


if __name__ == "__main__":
    cfg = sys.argv[1]
    c = mir.load(cfg)
    for name in sys.argv[2:]:
        for k, f in c.fns.items():
            if k == name or k.endswith("::" + name):
                dump(f)
