from .. import common, mir
from ..rules import dec, c04, c11, c12, c11_r3


def run(tier, replay=None):
    rep = common.Report("C01", tier)
    cfgs = ["dev-std", "dev-nostd"] if tier == "quick" else mir.CONFIGS
    mir.ensure_facts(cfgs)
    rep.configs = cfgs
    for cfg in cfgs:
        crate = mir.load(cfg)
        dec.c01_object(rep, crate, cfg)
        r = dec.roles_sbd(crate)
        dec.c01_solve(rep, crate, cfg, r)
        dec.c01_rebuild_fresh(rep, crate, cfg)
        dec.c02_block(rep, crate, cfg, r)
        # encoder and decoder must agree on ESI -> ISI (a packet's label and its payload), else no round trip
        c04.run_isi(rep, crate, cfg)
        # the symbol arithmetic the solver and the rebuild rest on: every kernel covers its buffers exactly once, computes its
        # operation's template and stays inside the buffers on every CPU path (C11-R2/R3, C12-R1)
        sub = common.Report("C12", tier)
        logs = c12.run(sub, crate, cfg)
        for v in sub.viol:
            rep.bad(v["rule"], v["fn"], v["key"].split("|", 2)[2], v["where"], v["msg"], v.get("detail"), cfg)
        c11.run_cover(rep, crate, cfg, logs)
        c11_r3.run(rep, crate, cfg)
    return rep.finish("other", "decoder returns exactly the object: structural clauses", "./check C01 %s" % tier)
