from .. import common, mir
from ..rules import dec, c04


def run(tier, replay=None):
    rep = common.Report("C01", tier)
    cfgs = ["dev-std", "dev-nostd"] if tier == "quick" else mir.CONFIGS
    mir.ensure_facts(cfgs)
    rep.configs = cfgs
    for cfg in cfgs:
        crate = mir.load(cfg)
        dec.c01_object(rep, crate, cfg)
        r = dec.roles_sbd(crate)
        dec.c01_solve(rep, crate, cfg, r)
        dec.c01_rebuild_fresh(rep, crate, cfg)
        dec.c02_block(rep, crate, cfg, r)
        # encoder and decoder must agree on ESI -> ISI (a packet's label and its payload), else no round trip
        c04.run_isi(rep, crate, cfg)
    return rep.finish("other", "decoder returns exactly the object: structural clauses", "./check C01 %s" % tier)
