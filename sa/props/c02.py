from .. import common, mir
from ..rules import dec


def run(tier, replay=None):
    rep = common.Report("C02", tier)
    cfgs = ["dev-std", "dev-nostd"] if tier == "quick" else mir.CONFIGS
    mir.ensure_facts(cfgs)
    rep.configs = cfgs
    for cfg in cfgs:
        crate = mir.load(cfg)
        r = dec.roles_sbd(crate)
        dec.c02_block(rep, crate, cfg, r)
        dec.c01_solve(rep, crate, cfg, r)
    return rep.finish("other", "a block decodes exactly when determined: structural clauses", "./check C02 %s" % tier)
