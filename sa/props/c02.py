from .. import common, mir
from ..rules import dec, c04


def run(tier, replay=None):
    rep = common.Report("C02", tier)
    cfgs = ["dev-std", "dev-nostd"] if tier == "quick" else mir.CONFIGS
    mir.ensure_facts(cfgs)
    mir.ensure_facts(["dev-std"], src=c04.REF_SRC, crate="rfcref")
    rep.configs = cfgs
    for cfg in cfgs:
        crate = mir.load(cfg)
        r = dec.roles_sbd(crate)
        dec.c02_block(rep, crate, cfg, r)
        # necessary for 'never gives up on a decodable set': every delivered packet is recorded (intake rules of C08-R1)
        dec.c08_block_decoder(rep, crate, cfg)
        dec.c01_solve(rep, crate, cfg, r)
        # the linear system the decoder solves has one row per received symbol and the RFC's pre-code rows
        c04.run_ldpc_hdpc(rep, crate, cfg)
    return rep.finish("other", "a block decodes exactly when determined: structural clauses", "./check C02 %s" % tier)
