import json, os
from .. import common, mir
from ..rules import c04, c05, c15


def run(tier, replay=None):
    rep = common.Report("C04", tier)
    cfgs = ["dev-std", "rel-std"] if tier == "quick" else mir.CONFIGS
    mir.ensure_facts(cfgs)
    mir.ensure_facts(["dev-std"], src=c04.REF_SRC, crate="rfcref")
    rep.configs = cfgs
    pins = json.load(open(os.path.join(mir.VERIF, "sa", "rules", "pins.json")))
    for cfg in cfgs:
        crate = mir.load(cfg)
        c04.run_rand(rep, crate, cfg)
        c04.run_tuple(rep, crate, cfg)
        c04.run_enc(rep, crate, cfg)
        c04.run_ldpc_hdpc(rep, crate, cfg)
        c04.run_isi(rep, crate, cfg)
        scans = c15.run_lookup_schema(rep, crate, cfg)
        # a symbol that cannot be produced in some build (overflow panic for one ESI) is not the RFC's symbol: C15-R3
        tab = c15.run_tables(rep, crate, cfg)
        if tab is not None:
            c15.run_ranges(rep, crate, cfg, scans, tab)
        c04.run_constants(rep, crate, cfg, pins)
        # the symbols that are encoded are the RFC's sub-block interleaving of the block (C05-R1..R4)
        c05.run(rep, crate, cfg)
    return rep.finish("other", "formula templates", "./check C04 %s" % tier)
