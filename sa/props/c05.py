from .. import common, mir
from ..rules import c05, c04, dec


def run(tier, replay=None):
    rep = common.Report("C05", tier)
    cfgs = ["dev-std", "dev-nostd"] if tier == "quick" else mir.CONFIGS
    mir.ensure_facts(cfgs)
    mir.ensure_facts(["dev-std"], src=c04.REF_SRC, crate="rfcref")
    rep.configs = cfgs
    for cfg in cfgs:
        crate = mir.load(cfg)
        c05.run(rep, crate, cfg)
        dec.c01_object(rep, crate, cfg)
        # every decode path puts symbol i through the un-interleaving into position i (C01-R3 assemble-by-index)
        dec.c01_solve(rep, crate, cfg, dec.roles_sbd(crate))
    return rep.finish("other", "partitioning and layout skeleton", "./check C05 %s" % tier)
