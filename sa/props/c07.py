from .. import common, mir
from ..rules import c07, c11, c12, c11_r3


def run(tier, replay=None):
    rep = common.Report("C07", tier)
    cfgs = ["dev-std", "rel-std", "dev-nostd", "rel-nostd"] if tier == "quick" else mir.CONFIGS
    mir.ensure_facts(cfgs)
    rep.configs = cfgs
    c07.run_twins(rep, mir.load("dev-std"), mir.load("rel-std"), "dev-std~rel-std")
    c07.run_twins(rep, mir.load("dev-nostd"), mir.load("rel-nostd"), "dev-nostd~rel-nostd")
    for cfg in ("dev-std", "dev-nostd"):
        crate = mir.load(cfg)
        c07.run_threshold(rep, crate, cfg)
        c11.run_gating(rep, crate, cfg)
        c11.run_dispatch(rep, crate, cfg)
        c07.run_constructors(rep, crate, cfg)
        # every CPU path computes the same function: exact cover of the buffers and per-operation templates (C11-R2/R3)
        sub = common.Report("C12", tier)
        logs = c12.run(sub, crate, cfg)
        c11.run_cover(rep, crate, cfg, logs)
        c11_r3.run(rep, crate, cfg)
    return rep.finish("other", "configuration independence: structural preconditions", "./check C07 %s" % tier)
