from .. import common, mir
from ..rules import c07, c07_scan, c07_dense, c11, c12, c11_r3, c18, dec


def run(tier, replay=None):
    rep = common.Report("C07", tier)
    cfgs = ["dev-std", "rel-std", "dev-nostd", "rel-nostd"] if tier == "quick" else mir.CONFIGS
    mir.ensure_facts(cfgs)
    rep.configs = cfgs
    c07.run_twins(rep, mir.load("dev-std"), mir.load("rel-std"), "dev-std~rel-std")
    c07.run_twins(rep, mir.load("dev-nostd"), mir.load("rel-nostd"), "dev-nostd~rel-nostd")
    for cfg in ("dev-std", "dev-nostd"):
        crate = mir.load(cfg)
        c07.run_threshold(rep, crate, cfg)
        c11.run_gating(rep, crate, cfg)
        c11.run_dispatch(rep, crate, cfg)
        c07.run_constructors(rep, crate, cfg)
        # std and no_std builds of Encoder::new agree on when a plan is (re)generated and for which count (C18-R4);
        # the dense and the sparse branch of the decoder treat the outcome of an attempt alike (C02-R1/R2)
        c18.run_plans(rep, crate, cfg)
        dec.c02_block(rep, crate, cfg, dec.roles_sbd(crate))
        # every CPU path computes the same function: exact cover of the buffers and per-operation templates (C11-R2/R3)
        sub = common.Report("C12", tier)
        logs = c12.run(sub, crate, cfg)
        c11.run_cover(rep, crate, cfg, logs)
        c11_r3.run(rep, crate, cfg)
        # the sparse back-end visits every word of its bit-packed tail (C07-R5)
        c07_scan.run(rep, crate, cfg)
        c07_dense.run(rep, crate, cfg)
    return rep.finish("other", "configuration independence: structural preconditions", "./check C07 %s" % tier)
