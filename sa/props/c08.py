from .. import common, mir
from ..rules import dec


def run(tier, replay=None):
    rep = common.Report("C08", tier)
    cfgs = ["dev-std", "dev-nostd"] if tier == "quick" else mir.CONFIGS
    mir.ensure_facts(cfgs)
    rep.configs = cfgs
    for cfg in cfgs:
        crate = mir.load(cfg)
        dec.c08_block_decoder(rep, crate, cfg)
        dec.c08_object_decoder(rep, crate, cfg)
    return rep.finish("other", "decoder order/duplication independence: structural clauses", "./check C08 %s" % tier)
