from .. import common, mir
from ..rules import c09, c04


def run(tier, replay=None):
    rep = common.Report("C09", tier)
    cfgs = ["dev-std", "dev-nostd"] if tier == "quick" else mir.CONFIGS
    mir.ensure_facts(cfgs)
    mir.ensure_facts(["dev-std"], src=c04.REF_SRC, crate="rfcref")
    rep.configs = cfgs
    for cfg in cfgs:
        crate = mir.load(cfg)
        c09.run(rep, crate, cfg)
        c04.run_enc(rep, crate, cfg)
    return rep.finish("other", "data independence of the solver and position-wise application", "./check C09 %s" % tier)
