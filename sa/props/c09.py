from .. import common, mir
from ..rules import c09, c04, c11, c12, c11_r3


def run(tier, replay=None):
    rep = common.Report("C09", tier)
    cfgs = ["dev-std", "dev-nostd"] if tier == "quick" else mir.CONFIGS
    mir.ensure_facts(cfgs)
    mir.ensure_facts(["dev-std"], src=c04.REF_SRC, crate="rfcref")
    rep.configs = cfgs
    for cfg in cfgs:
        crate = mir.load(cfg)
        c09.run(rep, crate, cfg)
        c04.run_enc(rep, crate, cfg)
        # every kernel touches each byte position once and byte j of the result depends on bytes j only (C11-R2/R3), within
        # the buffers (C12-R1): a kernel that mixes neighbouring bytes or columns breaks column independence
        sub = common.Report("C12", tier)
        logs = c12.run(sub, crate, cfg)
        for v in sub.viol:
            rep.bad(v["rule"], v["fn"], v["key"].split("|", 2)[2], v["where"], v["msg"], v.get("detail"), cfg)
        c11.run_cover(rep, crate, cfg, logs)
        c11_r3.run(rep, crate, cfg)
    return rep.finish("other", "data independence of the solver and position-wise application", "./check C09 %s" % tier)
