from .. import common, mir
from ..rules import c10


def run(tier, replay=None):
    rep = common.Report("C10", tier)
    cfgs = ["dev-std", "dev-nostd"] if tier == "quick" else mir.CONFIGS
    mir.ensure_facts(cfgs)
    rep.configs = cfgs
    for cfg in cfgs:
        crate = mir.load(cfg)
        c10.run_tables(rep, crate, cfg)
        c10.run_operators(rep, crate, cfg)
    rep.assumptions = ["rustc's const evaluator produced the table bytes that ship in the artefact"]
    return rep.finish(
        "proof",
        "Exhaustive check of the compiler-evaluated GF(256) tables (exp, log, 64Ki product table, two nibble "
        "tables) against an independent carry-less multiply modulo x^8+x^4+x^3+x^2+1, in every analysed cargo "
        "configuration.",
        "./check C10 %s" % tier)
