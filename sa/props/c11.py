from .. import common, mir
from ..rules import c11, c12, c11_r3


def run(tier, replay=None):
    rep = common.Report("C11", tier)
    cfgs = ["dev-std", "dev-nostd"] if tier == "quick" else mir.CONFIGS
    mir.ensure_facts(cfgs)
    rep.configs = cfgs
    for cfg in cfgs:
        crate = mir.load(cfg)
        c11.run_gating(rep, crate, cfg)
        c11.run_dispatch(rep, crate, cfg)
        sub = common.Report("C12", tier)
        logs = c12.run(sub, crate, cfg)
        c11.run_cover(rep, crate, cfg, logs)
        c11_r3.run(rep, crate, cfg)
    return rep.finish("other", "gating, dispatch, exact cover", "./check C11 %s" % tier)
