from .. import common, mir
from ..rules import c12
from .. import witness


def run(tier, replay=None):
    rep = common.Report("C12", tier)
    cfgs = ["dev-std", "dev-nostd", "dev-serde"] if tier == "quick" else mir.CONFIGS
    mir.ensure_facts(cfgs)
    rep.configs = cfgs
    for cfg in cfgs:
        c12.run(rep, mir.load(cfg), cfg)
    witness.run(rep, "C12-R4")
    return rep.finish("proof", "memory obligations of all unsafe code", "./check C12 %s" % tier)
