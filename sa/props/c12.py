from .. import common, mir
from ..rules import c12


def run(tier, replay=None):
    rep = common.Report("C12", tier)
    cfgs = ["dev-std", "dev-nostd", "dev-serde"] if tier == "quick" else mir.CONFIGS
    mir.ensure_facts(cfgs)
    rep.configs = cfgs
    for cfg in cfgs:
        c12.run(rep, mir.load(cfg), cfg)
    return rep.finish("proof", "memory obligations of all unsafe code", "./check C12 %s" % tier)
