from .. import common, mir
from ..rules import c13
from .. import witness


def run(tier, replay=None):
    rep = common.Report("C13", tier)
    cfgs = ["dev-std", "rel-std"] if tier == "quick" else mir.CONFIGS
    mir.ensure_facts(cfgs)
    rep.configs = cfgs
    for cfg in cfgs:
        c13.run(rep, mir.load(cfg), cfg)
    rep.assumptions = ["layout tables in sa/rules/c13.py transcribe RFC 6330 sections 3.2, 3.3.2, 3.3.3"]
    witness.run(rep, "C13-R3")
    return rep.finish(
        "proof",
        "Bit-provenance evaluation of the six (de)serialisers: every output bit of serialize and every field bit of "
        "deserialize is exactly the bit the RFC layout prescribes (big-endian, reserved byte constant 0 / ignored, bits "
        "above a field's width zero), for all inputs; packet = payload id then symbol bytes; ESI < 2^24 at every "
        "construction site. deserialize(serialize(x)) = x and serialize(deserialize(b)) = b except byte 5 follow by "
        "composing the two exact bit maps.",
        "./check C13 %s" % tier)
