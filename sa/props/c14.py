from .. import common, mir
from ..rules import c14


def run(tier, replay=None):
    rep = common.Report("C14", tier)
    cfgs = ["dev-std", "rel-std"] if tier == "quick" else mir.CONFIGS
    mir.ensure_facts(cfgs)
    rep.configs = cfgs
    for cfg in cfgs:
        c14.run_template(rep, mir.load(cfg), cfg)
        c14.run_ranges(rep, mir.load(cfg), cfg)
        c14.run_plumbing(rep, mir.load(cfg), cfg)
    return rep.finish("other", "derivation cone: lossless arithmetic and totality", "./check C14 %s" % tier)
