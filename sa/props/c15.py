import json, os
from .. import common, mir
from ..rules import c15, c04


def run(tier, replay=None):
    rep = common.Report("C15", tier)
    cfgs = ["dev-std", "rel-std"] if tier == "quick" else mir.CONFIGS
    mir.ensure_facts(cfgs)
    rep.configs = cfgs
    pins = json.load(open(os.path.join(mir.VERIF, "sa", "rules", "pins.json")))
    for cfg in cfgs:
        crate = mir.load(cfg)
        tab = c15.run_tables(rep, crate, cfg)
        scans = c15.run_lookup_schema(rep, crate, cfg)
        if tab is not None:
            c15.run_ranges(rep, crate, cfg, scans, tab)
        # 'the generated tuple equals RFC 6330's Tuple[K', X]': the template rules shared with C04
        c04.run_rand(rep, crate, cfg)
        c04.run_tuple(rep, crate, cfg)
        # the tabulated RFC data itself (J(K'), the Rand tables, the degree table): pinned fingerprints, shared with C04-R7
        c04.run_constants(rep, crate, cfg, pins)
    rep.trusted = ["rustc front end / const evaluator / MIR construction (nightly)",
                   "sa/absint.py transfer functions and sa/models.py library models",
                   "table relations used as facts are exactly those checked row by row by C15-R1 in the same run"]
    return rep.finish(
        "proof",
        "R1: all 477 rows of Table 2 / P1 checked exhaustively on the compiler-evaluated constants. R2: the seven "
        "lookup/scan functions match the first-row-with-key>=k schema and the exhaustion lemma makes their "
        "unreachable!() dead. R3: abstract interpretation (symbolic intervals over W, P1, J, K, X) of the tuple "
        "generator, Enc, ESI/ISI arithmetic: tuple postconditions and every MIR overflow/bounds/div assert, explicit "
        "panic and narrowing cast in the cone is discharged for all (K', X), in each build configuration analysed.",
        "./check C15 %s" % tier,
        undecided=["in-bounds-ness of SymbolSlab::get (slab holds L symbols) is a data-structure invariant outside this cone"])
