from .. import common, mir
from ..rules import c17


def run(tier, replay=None):
    rep = common.Report("C17", tier)
    cfgs = ["dev-std", "rel-std"] if tier == "quick" else mir.CONFIGS
    mir.ensure_facts(cfgs)
    rep.configs = cfgs
    for cfg in cfgs:
        c17.run(rep, mir.load(cfg), cfg)
    return rep.finish("other", "lock discipline and critical-section invariant of the plan cache", "./check C17 %s" % tier)
