from .. import common, mir
from ..rules import c18


def run(tier, replay=None):
    rep = common.Report("C18", tier)
    cfgs = ["dev-std", "dev-nostd"] if tier == "quick" else mir.CONFIGS
    mir.ensure_facts(cfgs)
    rep.configs = cfgs
    for cfg in cfgs:
        c18.run(rep, mir.load(cfg), cfg)
    return rep.finish("other", "repair stream addressing: structural clauses", "./check C18 %s" % tier)
