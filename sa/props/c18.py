from .. import common, mir
from ..rules import c18, c15


def run(tier, replay=None):
    rep = common.Report("C18", tier)
    cfgs = ["dev-std", "dev-nostd"] if tier == "quick" else mir.CONFIGS
    mir.ensure_facts(cfgs)
    rep.configs = cfgs
    for cfg in cfgs:
        crate = mir.load(cfg)
        c18.run(rep, crate, cfg)
        # C18-R2: inside the property's domain (K + start + n <= 2^24) producing the window neither overflows nor refuses:
        # the obligations of repair_packets / PayloadId::new / the tuple generator are those of C15-R3
        tab = c15.run_tables(rep, crate, cfg)
        scans = c15.run_lookup_schema(rep, crate, cfg)
        if tab is not None:
            c15.run_ranges(rep, crate, cfg, scans, tab)
    return rep.finish("other", "repair stream addressing: structural clauses", "./check C18 %s" % tier)
