from .. import common, mir
from ..rules import c19
from .. import witness


def run(tier, replay=None):
    rep = common.Report("C19", tier)
    cfgs = ["dev-std", "rel-std"] if tier == "quick" else mir.CONFIGS
    mir.ensure_facts(cfgs)
    rep.configs = cfgs
    for cfg in cfgs:
        c19.run(rep, mir.load(cfg), cfg)
    witness.run(rep, "C19-R3")
    return rep.finish(
        "proof",
        "R1: the acceptance predicate of the constructor (path predicate of its return, atoms normalised, ceil-division "
        "idioms recognised) is boolean-equivalent to the three documented limits on the property's domain. R2: abstract "
        "interpretation shows every cast/arithmetic step between the parameters and the compared value is lossless for "
        "every admitted input (all F <= 942574504275, T in 1..65535, Z in 1..255). R3: the stored fields are the "
        "parameters, accessors return them, no &mut self method exists, fields are private.",
        "./check C19 %s" % tier)
