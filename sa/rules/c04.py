"""C04 — encoding symbols are the RFC 6330 symbols: every shared formula and constant is the RFC's.

The RFC formulas are held here (templates) or in /verif/fixtures/rfcref (reference renderings of the
RFC pseudo-code, compiled by the same driver, never run) and compared with the repository's MIR as
terms / loop-emission summaries.  Decides formula shape, not the solution of the linear system.
"""
from .. import mir, terms, loops, tables
from ..terms import V, match, fmt
from . import c15
from .. import inline

REF_SRC = mir.VERIF + "/fixtures/rfcref"
P = lambda i: ("param", i)


def ref_crate(cfg="dev-std"):
    return mir.load("dev-std", src=REF_SRC, crate="rfcref")


def xor_leaves(t):
    if t[0] == "op" and t[1] == "BitXor":
        return xor_leaves(t[2]) + xor_leaves(t[3])
    return [t]


def run_rand(rep, crate, cfg):
    """R1: Rand[y, i, m] = (V0[(y+i) mod 256] ^ V1[((y>>8)+i) mod 256] ^ V2[((y>>16)+i) mod 256] ^ V3[((y>>24)+i) mod 256]) mod m"""
    R = "C04-R1"
    fn = crate.fns.get("rng::rand")
    rep.floor(R, 1 if fn else 0, 1, "rng::rand", cfg)
    if not fn:
        return
    rt = terms.normalise(terms.strip_casts(terms.TermBuilder(fn).return_term()))
    m = match(("op", "Rem", V("x"), P(3)), rt)
    rep.check(m is not None, R, fn.key, "mod-m", fn.loc(), "Rand result is (...) mod m", {"term": fmt(rt)[:200]}, cfg)
    if m is None:
        return
    leaves = xor_leaves(m["x"])
    rep.check(len(leaves) == 4, R, fn.key, "four-tables", fn.loc(), "Rand xors exactly four table entries", {"n": len(leaves)}, cfg)
    seen = {}
    for lf in leaves:
        mm = match(("index", ("item", V("tab")), V("ix")), lf)
        if mm is None:
            rep.bad(R, fn.key, "leaf-shape:" + fmt(lf)[:60], fn.loc(), "xor operand is not a table entry: %s" % fmt(lf)[:120], None, cfg)
            continue
        seen[mm["tab"].split("::")[-1]] = mm["ix"]
    y, i = P(1), P(2)
    for k in range(4):
        name = "V%d" % k
        ix = seen.get(name)
        sh = y if k == 0 else ("op", "Shr", y, ("const", 8 * k))
        sums = [("op", "Add", sh, i), ("call", "std::num::<impl u32>::wrapping_add", (sh, i)),
                ("call", "std::num::<impl u32>::wrapping_add", (i, sh))]
        alts = []
        for sm in sums:       # (y>>8k) + i, checked or wrapping; reduced mod 256 by % or by & 0xFF (same value for unsigned)
            alts.append(terms.normalise(("op", "Rem", sm, ("const", 256))))
            alts.append(terms.normalise(("op", "BitAnd", sm, ("const", 255))))
        ok = ix is not None and ix in alts
        rep.check(ok, R, fn.key, "index-" + name, fn.loc(),
                  "%s is indexed by ((y >> %d) + i) mod 256" % (name, 8 * k), {"found": fmt(ix)[:160] if ix else None}, cfg)


def run_tuple(rep, crate, cfg):
    """R3: Tuple[K', X] (RFC 6330 5.3.5.4)"""
    R = "C04-R3"
    fn = crate.fns.get("base::intermediate_tuple")
    rep.floor(R, 1 if fn else 0, 1, "base::intermediate_tuple", cfg)
    if not fn:
        return
    rt = terms.normalise(terms.strip_casts(terms.TermBuilder(fn).return_term()))
    if rt[0] != "agg" or len(rt[2]) != 6:
        rep.bad(R, fn.key, "shape", fn.loc(), "tuple generator does not return a 6-tuple", {"term": fmt(rt)[:200]}, cfg)
        return
    X, W, J, P1 = P(1), P(2), P(3), P(4)
    N = terms.normalise
    A0 = N(("op", "Add", ("const", 53591), ("op", "Mul", J, ("const", 997))))
    even = [N(("call", "std::num::<impl u32>::is_multiple_of", (A0, ("const", 2)))),
            N(("op", "Eq", ("op", "Rem", A0, ("const", 2)), ("const", 0))),
            N(("op", "Eq", ("op", "BitAnd", A0, ("const", 1)), ("const", 0)))]
    A_alts = [N(("ite", e, ("op", "Add", A0, ("const", 1)), A0)) for e in even]
    B = N(("op", "Mul", ("const", 10267), ("op", "Add", J, ("const", 1))))
    RAND = "rng::rand"

    def rand(y, i, m):
        return ("call", RAND, (y, ("const", i), m))
    results = {}
    d, a, b, d1, a1, b1 = rt[2]
    # y: recover from a's first argument
    my = match(("op", "Add", ("const", 1), ("call", RAND, (V("y"), ("const", 1), V("m")))), a) or \
        match(("op", "Add", ("call", RAND, (V("y"), ("const", 1), V("m"))), ("const", 1)), a)
    y = my["y"] if my else None
    y_ok = False
    if y is not None:
        for A in A_alts:
            for yy in (N(("op", "Rem", ("op", "Add", B, ("op", "Mul", X, A)), ("const", 1 << 32))),
                       N(("op", "Add", B, ("op", "Mul", X, A)))):
                if y == yy:
                    y_ok = True
    rep.check(y_ok, R, fn.key, "y", fn.loc(),
              "y = (B + X*A) mod 2^32 with A = 53591 + 997*J (+1 if even), B = 10267*(J+1)", {"found": fmt(y)[:300] if y else None}, cfg)
    if y is None:
        return
    v = rand(y, 0, ("const", 1 << 20))
    dterm = ("call", "base::deg", (v, W))
    chk = lambda ok, fp, what, got: rep.check(ok, R, fn.key, fp, fn.loc(), what, {"found": fmt(got)[:240]} if not ok else None, cfg)
    chk(d == dterm, "d", "d = Deg[Rand[y, 0, 2^20]] (with W)", d)
    chk(a == N(("op", "Add", ("const", 1), rand(y, 1, ("op", "Sub", W, ("const", 1))))), "a", "a = 1 + Rand[y, 1, W-1]", a)
    chk(b == rand(y, 2, W), "b", "b = Rand[y, 2, W]", b)
    d1_want = N(("ite", ("op", "Lt", dterm, ("const", 4)), ("op", "Add", ("const", 2), rand(X, 3, ("const", 2))), ("const", 2)))
    chk(d1 == d1_want, "d1", "d1 = 2 + Rand[X, 3, 2] if d < 4 else 2", d1)
    chk(a1 == N(("op", "Add", ("const", 1), rand(X, 4, ("op", "Sub", P1, ("const", 1))))), "a1", "a1 = 1 + Rand[X, 4, P1-1]", a1)
    chk(b1 == rand(X, 5, P1), "b1", "b1 = Rand[X, 5, P1]", b1)


def closure_sink(ct, t):
    if ct[0] == "call" and (not isinstance(ct[1], str) or ct[1].endswith("::call_mut") or ct[1].endswith("::call")):
        return "emit"
    return None


def tuple_roles(base):
    return {("field", base, k): "t%d" % k for k in range(6)}


def unwrap_closure_arg(ev):
    s, args = ev
    a = args[1] if len(args) > 1 else args[0]
    if a[0] == "agg":
        a = a[2][0] if len(a[2]) == 1 else a
    return ("emit", (a,))


def run_enc(rep, crate, cfg):
    """R4: Enc (5.3.5.3): both siblings produce the RFC's index sequence"""
    R = "C04-R4"
    ref = ref_crate()
    rf = ref.fns["enc_ref"]
    roles = tuple_roles(P(1))
    roles.update({P(2): "W", P(3): "P", P(4): "P1"})
    sig_ref = loops.signature(loops.LoopSummary(rf, closure_sink), roles, unwrap_closure_arg)
    # sibling 1: enc_indices(tuple, W, P, P1, f)
    f1 = crate.fns.get("constraint_matrix::enc_indices")
    f2 = crate.fns.get("encoder::enc_into")
    rep.floor(R, (f1 is not None) + (f2 is not None), 2, "Enc siblings (enc_indices, enc_into)", cfg)
    if f1 is not None:
        for fv in inline.variants(crate, f1):       # retry with extracted helpers spliced back in
            sig1 = loops.signature(loops.LoopSummary(fv, closure_sink), roles, unwrap_closure_arg)
            d = loops.diff_signatures(sig_ref, sig1)
            if d and getattr(fv, "inlined", False):
                d = loops.diff_anonymised(sig_ref, sig1)     # inlining duplicates loop variables: compare the formulas
            if not d:
                break
        rep.check(not d, R, f1.key, "enc-index-sequence", f1.loc(),
                  "enc_indices emits b, then d-1 times b=(b+a)%W, then W+b1 after the b1>=P skip loop, then d1-1 more (RFC 5.3.5.3)",
                  {"differences": d[:4]}, cfg)
    if f2 is not None:
        # enc_into(dest, K, slab, tuple): W, P, P1 are looked up from K; emissions are slab.get(idx) combined into dest
        K = P(2)
        roles2 = tuple_roles(P(4))
        roles2.update({("call", "systematic_constants::num_lt_symbols", (K,)): "W",
                       ("call", "systematic_constants::num_pi_symbols", (K,)): "P",
                       ("call", "systematic_constants::calculate_p1", (K,)): "P1"})
        kinds = []

        def sink2(ct, t):
            if ct[0] == "call" and isinstance(ct[1], str) and (ct[1].endswith("::add_assign") or ct[1].endswith("copy_from_slice")):
                return ct[1].split("::")[-1]
            return None

        def norm2(ev):
            s, args = ev
            m = match(("call", V("get", lambda x: isinstance(x, str) and x.endswith("SymbolSlab::get")), (P(3), V("ix"))), args[1])
            dest_ok = args[0] == P(1)
            if m is None or not dest_ok:
                return ("emit", (("bad-operand", args),))
            kinds.append(s)
            return ("emit", (m["ix"],))
        for fv in inline.variants(crate, f2):
            del kinds[:]
            sig2 = loops.signature(loops.LoopSummary(fv, sink2), roles2, norm2)
            d = loops.diff_signatures(sig_ref, sig2)
            if d and getattr(fv, "inlined", False):
                d = loops.diff_anonymised(sig_ref, sig2)
            if not d:
                break
        rep.check(not d, R, f2.key, "enc-index-sequence", f2.loc(),
                  "enc_into combines intermediate symbols at the RFC's index sequence (same as enc_indices)",
                  {"differences": d[:4]}, cfg)
        rep.check(bool(kinds) and kinds[0] == "copy_from_slice" and all(k == "add_assign" for k in kinds[1:]), R, f2.key,
                  "enc-first-copy-rest-xor", f2.loc(),
                  "enc_into: dest = C[b] for the first index, dest ^= C[idx] (add_assign) for every further index", {"kinds": kinds}, cfg)


def run_ldpc_hdpc(rep, crate, cfg):
    """R6: pre-code generator rows (5.3.3.3)"""
    R = "C04-R6"
    ref = ref_crate()
    # ---- LDPC ----
    rf = ref.fns["ldpc_ref"]
    rroles = {P(1): "S", P(2): "B", P(3): "W", P(4): "P"}

    def rsink(ct, t):
        return closure_sink(ct, t)

    def rnorm(ev):
        s, args = ev
        a = args[1]
        return ("set", tuple(a[2])) if a[0] == "agg" else ("set", (a,))
    sig_ref = loops.signature(loops.LoopSummary(rf, rsink), rroles, rnorm)
    n_ldpc_loops = len(sig_ref["loops"])
    n_ldpc_events = len(sig_ref["events"])
    gens = [(k, f) for k, f in crate.fns.items() if k.startswith("constraint_matrix::generate_constraint_matrix")
            and f.f["kind"] == "Fn"]
    rep.floor(R, len(gens), 2, "constraint matrix generators (with and without HDPC rows)", cfg)
    K = P(1)
    lk = lambda n: ("call", "systematic_constants::" + n, (K,))
    S_, H_, W_, P_, L_, KP_ = lk("num_ldpc_symbols"), lk("num_hdpc_symbols"), lk("num_lt_symbols"), lk("num_pi_symbols"), \
        lk("num_intermediate_symbols"), lk("extended_source_block_symbols")
    roles = {S_: "S", W_: "W", P_: "P", H_: "H", L_: "L", KP_: "K'"}
    b_rule = [(("op", "Sub", ("role", "W"), ("role", "S")), lambda e: ("role", "B"))]
    enc_rows = {}
    for k, f in sorted(gens):
        one_ok = []

        def sink(ct, t):
            if ct[0] == "call" and isinstance(ct[1], str) and ct[1].endswith("BinaryMatrix::set"):
                return "set"
            return None

        def norm(ev):
            s, args = ev
            # set(&mut matrix, row, col, Octet::one())
            one_ok.append(len(args) == 4 and args[3] == ("call", "octet::Octet::one", ()))
            return ("set", (args[1], args[2]))
        for fv in inline.variants(crate, f):
            del one_ok[:]
            ls = loops.LoopSummary(fv, sink)
            sig = loops.rewrite_signature(loops.signature(ls, roles, norm), b_rule)
            # the LDPC part = the first three loops and their events; the G_ENC loop follows
            part = {"loops": sig["loops"][:n_ldpc_loops], "events": tuple(e for e in sig["events"] if e[0] is not None and e[0] < n_ldpc_loops)}
            d = loops.diff_signatures(sig_ref, part)
            if not d:
                break
        rep.check(not d, R, k, "ldpc-rows", f.loc(),
                  "G_LDPC,1 (a=1+i/S, b=i%S, three sets with b=(b+a)%S), I_S at column B+i, G_LDPC,2 at W+i%P and W+(i+1)%P",
                  {"differences": d[:4]}, cfg)
        rep.check(bool(one_ok) and all(one_ok), R, k, "ldpc-entries-one", f.loc(), "every LDPC/identity entry set is the field element 1", None, cfg)
        # G_ENC rows: closure passed to enc_indices sets (row + offset, j)
        encs = [(kk, ff) for kk, ff in crate.fns.items() if kk.startswith(k + "::{closure")]
        for kk, ff in encs:
            tb = terms.TermBuilder(ff)
            for b, t in ff.calls():
                ct = tb.call_term(b, t)
                if ct[0] == "call" and isinstance(ct[1], str) and ct[1].endswith("BinaryMatrix::set"):
                    enc_rows[k] = (ct[2][1], ct[2][2], ct[2][3], ff)
        # call arguments of tuple generator / enc_indices inside the generator
        tb = terms.TermBuilder(f)
        calls = {}
        for b, t in f.calls():
            ct = tb.call_term(b, t)
            if ct[0] == "call" and isinstance(ct[1], str):
                calls.setdefault(ct[1], []).append(ct)
        KP32 = terms.normalise(terms.strip_casts(KP_))
        it = calls.get("base::intermediate_tuple", [])
        ei = calls.get("constraint_matrix::enc_indices", [])
        okargs = False
        if len(it) == 1 and len(ei) == 1:
            ia = [terms.normalise(terms.strip_casts(x)) for x in it[0][2]]
            ea = [terms.normalise(terms.strip_casts(x)) for x in ei[0][2]]
            lkp = lambda n: ("call", "systematic_constants::" + n, (KP32,))
            okargs = ia[1:] == [lkp("num_lt_symbols"), lkp("systematic_index"), lkp("calculate_p1")] and \
                ea[1:4] == [lkp("num_lt_symbols"), lkp("num_pi_symbols"), lkp("calculate_p1")] and ea[0] == terms.normalise(terms.strip_casts(it[0]))
        # one G_ENC row per received symbol: the loop runs over the whole list of received ISIs, without early exit,
        # and row r is built from the r-th ISI
        def gsink(ct, t):
            if ct[0] == "call" and isinstance(ct[1], str) and ct[1].split("::")[-1] in ("intermediate_tuple", "enc_indices"):
                return ct[1].split("::")[-1]
            return None
        gls = loops.LoopSummary(f, gsink)
        gev = [e for e in gls.events if e["sink"] == "intermediate_tuple"]
        okall = len(gev) == 1 and gev[0]["loop"] is not None
        gdet = {}
        if okall:
            lp = gls.loops[gev[0]["loop"]]
            src = terms.normalise(terms.strip_casts(lp["source"])) if lp["source"] else None
            isi = terms.normalise(terms.strip_casts(gev[0]["args"][0]))
            item = ("item", lp["id"])
            LIST = P(2)
            f_enum = src == ("call", "std::iter::Iterator::enumerate", (("call", "std::slice::<impl [T]>::iter", (LIST,)),)) and \
                isi in (("deref", ("field", item, 1)), ("field", item, 1))
            f_range = src == ("agg", "adt:std::ops::Range", (("const", 0), terms.normalise(("call", "std::slice::<impl [T]>::len", (LIST,))))) and \
                terms.find(item, isi) is not None and terms.find(LIST, isi) is not None
            body = gls.loops_raw[lp["head"]]
            live = f.cfg._can_reach_exit()
            exits = [(b, s_) for b in sorted(body) for s_ in f.cfg.succ[b] if s_ not in body and s_ in live]
            okall = (f_enum or f_range) and not lp["conds"] and len(exits) == 1 and lp["parent"] is None
            gdet = {"loop_source": fmt(src)[:120] if src else None, "isi": fmt(isi)[:80], "exits": len(exits)}
        rep.check(okall, R, k, "genc-all-received", f.loc(),
                  "G_ENC has one row for every received symbol: the row loop runs over the whole ISI list, with no early exit", gdet, cfg)
        rep.check(okargs, R, k, "genc-arguments", f.loc(),
                  "each G_ENC row uses Tuple[K', ISI] and Enc with the W, J, P, P1 of the same K'",
                  {"tuple_call": fmt(it[0])[:200] if it else None, "enc_call": fmt(ei[0])[:200] if ei else None}, cfg)
    # sibling agreement on the G_ENC row offset: S+H with HDPC rows, S without
    for k, (row, col, val, ff) in enc_rows.items():
        rowt = terms.normalise(terms.strip_casts(terms.simplify(row)))
        with_h = "no_hdpc" not in k
        rep.check(val == ("call", "octet::Octet::one", ()), R, k, "genc-entry-one", ff.loc(), "G_ENC entries are 1", None, cfg)
        # row term: *(env.row) + *(env.S) [+ *(env.H)] — count the captured addends
        addends = []

        def flat(x):
            if x[0] == "op" and x[1] == "Add":
                flat(x[2])
                flat(x[3])
            else:
                addends.append(x)
        flat(rowt)
        rep.check(len(addends) == (3 if with_h else 2), R, k, "genc-row-offset", ff.loc(),
                  "G_ENC row = received index + %s" % ("S + H" if with_h else "S (no HDPC rows)"),
                  {"row": fmt(rowt)[:200]}, cfg)
    rep.floor(R, len(enc_rows), 2, "G_ENC row closures", cfg)
    # ---- HDPC ----
    hf = crate.fns.get("constraint_matrix::generate_hdpc_rows")
    rep.floor(R, 1 if hf else 0, 1, "generate_hdpc_rows", cfg)
    if hf is None:
        return
    rf = ref.fns["hdpc_ref"]
    G = ("role", "G")

    def ref_sink(ct, t):
        if ct[0] == "store":
            return "store"
        if ct[0] == "call" and isinstance(ct[1], str) and ct[1].endswith("::call_mut"):
            return "set"
        return None
    CALL = lambda p, n: (("call", "std::ops::Fn::call", (("ref", P(p)), ("agg", "tuple", V("a")))), lambda e, n=n: ("rcall", n, e["a"]))
    ref_rules = [CALL(4, "rand"), CALL(5, "alpha_pow"), CALL(6, "mul_alpha"),
                 (("call", "std::ops::FnMut::call_mut", (("ref", P(8)), ("agg", "tuple", V("a")))), lambda e: ("rset", e["a"])),
                 (("call", "std::ops::FnMut::call_mut", (("ref", P(9)), ("agg", "tuple", V("a")))), lambda e: ("rset1", e["a"])),
                 (("ref", P(7)), lambda e: G), (P(7), lambda e: G)]
    rroles = {P(1): "K'", P(2): "S", P(3): "H"}

    def ev_ref(ev):
        s, args = ev
        if s == "set":
            a = args[1]
            which = "set1" if args[0] == ("ref", P(9)) else "set"
            return (which, tuple(a[2]))
        return ev
    sig_ref = loops.rewrite_signature(loops.signature(loops.LoopSummary(rf, ref_sink), rroles, ev_ref), ref_rules)

    def sink(ct, t):
        if ct[0] == "store":
            return "store"
        if ct[0] == "call" and isinstance(ct[1], str) and ct[1].endswith("DenseOctetMatrix::set"):
            return "set"
        return None
    gterm = None
    ls = loops.LoopSummary(hf, sink)
    # the scratch table: vec![vec![0; K'+S]; H]
    for e in ls.events:
        if e["sink"] == "store":
            found = terms.find(("call", "std::vec::from_elem", (("call", "std::vec::from_elem", V("x")), V("y"))), e["args"][0])
            if found:
                gterm = found[1]
                break
    ONE = ("call", "octet::Octet::byte", (("ref", ("call", "octet::Octet::one", ())),))
    rules = [
        (("call", "rng::rand", V("a")), lambda e: ("rcall", "rand", e["a"])),
        (("call", "octet::Octet::byte", (("ref", ("call", "octet::Octet::alpha", V("a"))),)), lambda e: ("rcall", "alpha_pow", e["a"])),
        (("call", "octet::Octet::byte", (("ref", ("call", V("mul", lambda x: isinstance(x, str) and x.endswith("::mul")),
                                                (("call", "octet::Octet::alpha", (("const", 1),)), ("call", "octet::Octet::new", V("a"))))),)),
         lambda e: ("rcall", "mul_alpha", e["a"])),
        (ONE, lambda e: ("const", 1)),
    ]
    NESTED = ("call", "std::vec::from_elem", (("call", "std::vec::from_elem", V("x")), V("y")))
    rules += [(("ref", NESTED), lambda e: G), (NESTED, lambda e: G)]

    def ev(evt):
        s, args = evt
        if s == "set":
            v = args[3]
            if v == ("call", "octet::Octet::one", ()):
                return ("set1", (args[1], args[2]))
            m = match(("call", "octet::Octet::new", (V("x"),)), v)
            return ("set", (args[1], args[2], m["x"] if m else v))
        return evt
    roles = {P(1): "K'", P(2): "S", P(3): "H"}
    sig = loops.rewrite_signature(loops.signature(ls, roles, ev), rules)
    d = loops.diff_signatures(sig_ref, sig)
    rep.check(not d, R, hf.key, "hdpc-recursion", hf.loc(),
              "G_HDPC: last column alpha^i; right-to-left G[:,j] = alpha*G[:,j+1] + MT[:,j] with MT from Rand[j+1,6,H] and "
              "(Rand[j+1,6,H]+Rand[j+1,7,H-1]+1)%H; identity I_H at columns K'+S..", {"differences": d[:4]}, cfg)
    # the generators pass (K', S, H) of the same K
    for k, f in sorted(gens):
        tb = terms.TermBuilder(f)
        for b, t in f.calls():
            ct = tb.call_term(b, t)
            if ct[0] == "call" and ct[1] == hf.key:
                a = [terms.normalise(terms.strip_casts(x)) for x in ct[2]]
                rep.check(a == [KP_, S_, H_], R, k, "hdpc-arguments", f.loc(), "HDPC rows are generated for (K', S, H) of the block", {"args": [fmt(x) for x in a]}, cfg)


FINGERPRINTS = {
    # regression oracle only (no independent copy of RFC 6330 exists in the sandbox): taken from the pinned tree
}


def run_constants(rep, crate, cfg, pins):
    R = "C04-R7"
    n = 0
    for name in ("rng::V0", "rng::V1", "rng::V2", "rng::V3", "systematic_constants::SYSTEMATIC_INDICES_AND_PARAMETERS",
                 "systematic_constants::P1_TABLE"):
        c = crate.consts.get(name)
        if c is None or c["value"] is None:
            continue
        n += 1
        fp = tables.fingerprint(c["value"])
        want = pins.get(name)
        rep.check(want is None or fp == want, R, name, "fingerprint", mir.sp_loc(c["sp"]),
                  "%s has the pinned content (fingerprint %s)" % (name.split("::")[-1], want), {"found": fp}, cfg)
    rep.floor(R, n, 6, "RFC constant tables (V0..V3, Table 2, P1)", cfg)


def addends(t):
    out = []

    def flat(x):
        if x[0] == "op" and x[1] == "Add":
            flat(x[2])
            flat(x[3])
        else:
            out.append(x)
    flat(t)
    return sorted(out, key=repr)


def field_by_type(crate, adt, pred):
    a = crate.adts.get(adt)
    if not a:
        return None
    idx = [i for i, f in enumerate(a["variants"][0]["fields"]) if pred(f)]
    return idx[0] if len(idx) == 1 else None


def struct_of_self(fn):
    i0 = fn.f["inputs"][0]
    return i0["to"].get("adt") if i0.get("k") == "ref" else None


def run_isi(rep, crate, cfg, R="C04-R5"):
    """R5: ESI <-> ISI arithmetic on both sides (RFC 5.3.1: ISI = ESI for source symbols, ESI + (K'-K) for repair)"""
    N = lambda t: terms.normalise(terms.strip_casts(t))
    # ---- encoder: repair packets ----
    rps = [f for k, f in crate.fns.items() if k.endswith("SourceBlockEncoder::repair_packets")]
    rep.floor(R, len(rps), 1, "SourceBlockEncoder::repair_packets", cfg)
    for f in rps:
        adt = struct_of_self(f)
        i_sbn = field_by_type(crate, adt, lambda fl: fl["ty"]["s"] == "u8")
        i_src = field_by_type(crate, adt, lambda fl: fl["ty"].get("adt", "").endswith("Vec"))
        i_slab = field_by_type(crate, adt, lambda fl: fl["ty"].get("adt", "").endswith("SymbolSlab"))
        if None in (i_sbn, i_src, i_slab):
            rep.bad(R, f.key, "self-shape", f.loc(), "SourceBlockEncoder does not have {u8 id, Vec symbols, SymbolSlab}", None, cfg)
            continue
        SELF = ("deref", P(1))
        K = N(("call", "std::vec::Vec::<T, A>::len", (("ref", ("field", SELF, i_src)),)))
        START = P(2)
        KP = ("call", "systematic_constants::extended_source_block_symbols", (K,))

        def sink(ct, t):
            if ct[0] == "call" and isinstance(ct[1], str) and ct[1] in ("base::intermediate_tuple", "encoder::enc_into",
                                                                       "base::PayloadId::new", "base::EncodingPacket::new"):
                return ct[1].split("::", 1)[1]
            if ct[0] == "call" and isinstance(ct[1], str) and ct[1].endswith("Vec::<T, A>::push"):
                return "push"
            return None
        ls = loops.LoopSummary(f, sink)
        ev = {}
        for e in ls.events:
            ev.setdefault(e["sink"], []).append(e)
        one_loop = len(ls.loops) == 1 and ls.loops[0]["source"] is not None and \
            N(ls.loops[0]["source"]) == ("agg", "adt:std::ops::Range", (("const", 0), P(3)))
        rep.check(one_loop, R, f.key, "window", f.loc(), "repair_packets iterates i over 0..packets exactly once per packet",
                  {"loops": loops.render(ls)[:300]}, cfg)
        ITEM = ("item", 0)
        it = ev.get("intermediate_tuple", [])
        ok_t = len(it) == 1 and it[0]["loop"] == 0 and addends(N(it[0]["args"][0])) == addends(N(("op", "Add", ("op", "Add", START, KP), ITEM)))
        rep.check(ok_t, R, f.key, "repair-isi", f.loc(), "tuple of repair packet i uses ISI = start + i + K' (K' of this block's K)",
                  {"found": fmt(it[0]["args"][0])[:200] if it else None}, cfg)
        if it:
            a = [N(x) for x in it[0]["args"][1:]]
            lk = lambda n: ("call", "systematic_constants::" + n, (K,))
            rep.check(a == [lk("num_lt_symbols"), lk("systematic_index"), lk("calculate_p1")], R, f.key, "repair-tuple-params", f.loc(),
                      "tuple uses W, J, P1 of this block's K", {"found": [fmt(x) for x in a]}, cfg)
        pid = ev.get("PayloadId::new", [])
        ok_p = len(pid) == 1 and pid[0]["loop"] == 0 and N(pid[0]["args"][0]) == ("field", SELF, i_sbn) and \
            addends(N(pid[0]["args"][1])) == addends(N(("op", "Add", ("op", "Add", K, START), ITEM)))
        rep.check(ok_p, R, f.key, "repair-esi", f.loc(), "repair packet i carries (this block's number, ESI = K + start + i)",
                  {"found": [fmt(x)[:120] for x in pid[0]["args"]] if pid else None}, cfg)
        en = ev.get("enc_into", [])
        ok_e = False
        if len(en) == 1 and it:
            a = en[0]["args"]
            buf = a[0]
            while buf[0] in ("deref", "deref*", "ref"):
                buf = buf[1]
            fresh = buf[0] == "call" and buf[1] == "std::vec::from_elem" and buf[2][0] == ("const", 0)
            ok_e = en[0]["loop"] == 0 and fresh and N(a[1]) == K and N(a[2]) in (("field", SELF, i_slab), ("ref", ("field", SELF, i_slab))) and \
                N(a[3]) == N(("call", "base::intermediate_tuple", it[0]["args"]))
        rep.check(ok_e, R, f.key, "repair-enc", f.loc(),
                  "each packet's symbol is Enc over this block's intermediate symbols into a freshly zeroed buffer created inside the loop",
                  {"found": [fmt(x)[:100] for x in en[0]["args"]] if en else None}, cfg)
        # nothing but the output vector is carried across iterations
        carried = [c for l in ls.loops for c in l["carried"] if not any(loops.is_junk(x) for x in c["init"] + c["update"])
                   and c["init"] != c["update"]]
        rep.check(not carried, R, f.key, "no-loop-state", f.loc(), "no value is carried from one packet to the next",
                  {"carried": [(c["name"], [fmt(x) for x in c["update"]]) for c in carried]}, cfg)
    # ---- decoder: ISIs pushed for the solve ----
    dec = [f for k, f in crate.fns.items() if k.endswith("SourceBlockDecoder::decode") and f.f["kind"] == "AssocFn"]
    rep.floor(R, len(dec), 1, "SourceBlockDecoder::decode", cfg)
    for f in dec:
        adt = struct_of_self(f)
        i_k = None
        a = crate.adts.get(adt)
        names = [fl["name"] for fl in a["variants"][0]["fields"]] if a else []
        # K: the u32 field compared with the packet's ESI for the source/repair split
        tb = terms.TermBuilder(f)

        from .. import seqs
        from . import dec as decmod

        def sink(ct, t):
            if ct[0] == "call" and isinstance(ct[1], str):
                sh = ct[1].split("::")[-1]
                if ct[1].endswith("Vec::<T, A>::push"):
                    return "push"
                if sh == "extend":
                    return "extend"
                if sh in ("generate_constraint_matrix", "generate_constraint_matrix_no_hdpc"):
                    return "matrix"
            return None
        ls = loops.LoopSummary(f, sink)
        SELF = ("deref", P(1))
        r = decmod.roles_sbd(crate)
        mats = [e for e in ls.events if e["sink"] == "matrix"]
        rep.floor(R, len(mats), 1, "constraint matrix built from the list of received ISIs", cfg)
        if not mats or any(k_ not in r for k_ in ("source_symbols", "repair_packets")):
            continue
        target = mats[0]["args"][1]
        while target[0] in ("ref", "deref", "deref*"):
            target = target[1]
        same_list = all(seqs._strip_refs(e["args"][1]) == target for e in mats)
        segs, problems = seqs.vector_segments(crate, f, ls, lambda b: b == target, lambda blk: decmod.conds_of(ls, blk))
        segs = [seqs.norm_seg(g) for g in segs]
        IX = seqs.IX
        SRC = ("field", SELF, r["source_symbols"])
        REP = ("field", SELF, r["repair_packets"])
        kf = [i_ for i_ in r["u32s"]]
        found = {"segments": [{"count": fmt(g["count"])[:80], "value": fmt(g["value"])[:120], "cond": fmt(g["cond"])[:100] if g["cond"] else None}
                              for g in segs], "problems": problems}
        ok = same_list and not problems and len(segs) == 3
        kfield = None
        if ok:
            s1, s2, s3 = segs
            # source symbols: ISI i for every received source symbol i
            c1 = s1["cond"]
            ok1 = s1["count"] == ("len", SRC) and s1["value"] == IX and c1 is not None and c1[0] == "call" and \
                c1[1].endswith("Option::<T>::is_some") and seqs._strip_refs(c1[2][0]) == ("index", SRC, IX)
            # padding: K..K'
            m = match(("op", "Add", IX, ("field", SELF, V("k"))), s2["value"]) or match(("op", "Add", ("field", SELF, V("k")), IX), s2["value"])
            ok2 = False
            if m is not None and m["k"] in kf:
                kfield = m["k"]
                K = ("field", SELF, kfield)
                KP = ("call", "systematic_constants::extended_source_block_symbols", (K,))
                ok2 = s2["cond"] is None and s2["count"] == N(("op", "Sub", KP, K))
                # repair: ESI + (K' - K) for every stored repair packet
                pad = N(("op", "Sub", KP, K))
                parts = addends(s3["value"])
                esi = [p_ for p_ in parts if p_ != pad]
                ok3 = s3["cond"] is None and s3["count"] == ("len", REP) and pad in parts and len(parts) == 2 and len(esi) == 1 and \
                    esi[0][0] == "call" and esi[0][1].endswith("PayloadId::encoding_symbol_id") and \
                    terms.find(("index", REP, IX), esi[0]) is not None
            else:
                ok3 = False
            ok = ok1 and ok2 and ok3
            found.update(source=ok1, padding=ok2, repair=ok3)
        rep.check(kfield is not None, R, f.key, "padding-range", f.loc(),
                  "padding symbols are the ISIs K..K' (K' = extended_source_block_symbols(K))", None, cfg)
        rep.check(ok, R, f.key,
                  "decoder-isis", f.loc(),
                  "rows of the decoding system, in this order: ISI i for each received source symbol i; K..K' (padding); "
                  "ESI + (K' - K) for each stored repair packet - and nothing else",
                  found, cfg)
