"""C05 — partitioning and source packet layout (RFC 6330 4.4.1.2): arithmetic skeleton of the layout."""
from .. import mir, terms, loops
from ..terms import V, match, fmt
from . import c04, dec
from .. import inline

N = dec.N
P = lambda i: ("param", i)


def ref_crate():
    return c04.ref_crate()


def run(rep, crate, cfg):
    r1(rep, crate, cfg)
    r2_blocks(rep, crate, cfg)
    r2_subblocks(rep, crate, cfg)
    r4(rep, crate, cfg)


def r1(rep, crate, cfg):
    R = "C05-R1"
    f = crate.fns.get("base::partition")
    rep.floor(R, 1 if f else 0, 1, "base::partition", cfg)
    if not f:
        return
    ref = ref_crate().fns["partition_ref"]
    norm = lambda t, c: terms.normalise(terms.strip_casts(terms.simplify(terms.normalise(terms.inline(t, c)))))
    a = norm(terms.TermBuilder(f).return_term(), crate)
    b = norm(terms.TermBuilder(ref).return_term(), ref_crate())
    rep.check(a == b, R, f.key, "partition-formula", f.loc(),
              "Partition[I,J] = (ceil(I/J), floor(I/J), I - floor(I/J)*J, J - JL), in that order",
              {"found": fmt(a)[:240], "rfc": fmt(b)[:240]}, cfg)


def part_roles(call, names):
    """roles for the four components of one partition(..) call term"""
    return {("field", call, i): n for i, n in enumerate(names)}


def r2_blocks(rep, crate, cfg):
    R = "C05-R2"
    refc = ref_crate()
    rf = refc.fns["block_offsets_ref"]

    def rsink(ct, t):
        return "emit" if (ct[0] == "call" and (not isinstance(ct[1], str) or ct[1].endswith("call_mut"))) else None

    def rnorm(ev):
        s, args = ev
        a = args[1]
        return ("emit", tuple(a[2]) if a[0] == "agg" else (a,))
    rroles = {P(1): "KL", P(2): "KS", P(3): "ZL", P(4): "ZS", P(5): "T"}
    sig_ref = loops.signature(loops.LoopSummary(rf, rsink), rroles, rnorm)
    f = crate.fns.get("encoder::calculate_block_offsets")
    rep.floor(R, 1 if f else 0, 1, "encoder::calculate_block_offsets", cfg)
    if f:
        CFG = P(2)
        T = N(("call", "base::ObjectTransmissionInformation::symbol_size", (CFG,)))
        KT = ("call", "util::int_div_ceil", (("call", "base::ObjectTransmissionInformation::transfer_length", (CFG,)), T))
        Z = ("call", "base::ObjectTransmissionInformation::source_blocks", (CFG,))
        part = ("call", "base::partition", (KT, Z))
        roles = part_roles(part, ["KL", "KS", "ZL", "ZS"])
        roles[T] = "T"

        def sink(ct, t):
            return "emit" if (ct[0] == "call" and isinstance(ct[1], str) and ct[1].endswith("Vec::<T, A>::push")) else None

        def norm(ev):
            s, args = ev
            a = args[1]
            return ("emit", tuple(a[2]) if a[0] == "agg" else (a,))
        for fv in inline.variants(crate, f):
            ls = loops.LoopSummary(fv, sink)
            sig = loops.signature(ls, roles, norm)
            # `if zl > 0 { .. }` wrappers only add an ITE on the initial value of the running offset: normalise it away
            rules = [(("ite", ("op", "Lt", ("const", 0), ("role", V("z"))), V("a"), ("const", 0)), lambda e: e["a"])]
            sig = loops.rewrite_signature(sig, rules)
            d = loops.diff_signatures(sig_ref, sig)
            if not d:
                break
        rep.check(not d, R, f.key, "block-offsets", f.loc(),
                  "block i covers [pos, pos + K_i*T): the first ZL blocks use KL, the following ZS blocks use KS, contiguous from 0 "
                  "(roles of Partition[Kt, Z] as in the RFC)", {"differences": d[:4]}, cfg)
    # the decoder's view of the same partition is C01-R4 (block-decoders-ascending); run it under this property as well
    dec.c01_object.__wrapped__ if hasattr(dec.c01_object, "__wrapped__") else None


def r2_subblocks(rep, crate, cfg):
    R = "C05-R3"
    refc = ref_crate()
    # ---- encoder: create_symbols ----
    rf = refc.fns["interleave_ref"]

    def sink_e(ct, t):
        return "copy" if (ct[0] == "call" and isinstance(ct[1], str) and ct[1].endswith("extend_from_slice")) else None

    def norm_e(ev):
        s, args = ev
        m = match(("call", "std::ops::Index::index", (V("d"), ("agg", "adt:std::ops::Range", (V("a"), V("b"))))), N(args[1]))
        if m is None:
            return ("copy", (("bad", args[1]),))
        return ("copy", (N(args[0]), m["a"], m["b"]))
    rroles = {P(1): "TL", P(2): "TS", P(3): "NL", P(4): "NS", P(5): "Al"}
    lsr = loops.LoopSummary(rf, sink_e)
    sig_ref = loops.signature(lsr, rroles, norm_e)
    f = [g for k, g in crate.fns.items() if k.endswith("SourceBlockEncoder::create_symbols")]
    rep.floor(R, len(f), 1, "SourceBlockEncoder::create_symbols", cfg)
    for g in f:
        CFG = P(1)
        T = ("call", "base::ObjectTransmissionInformation::symbol_size", (CFG,))
        AL = ("call", "base::ObjectTransmissionInformation::symbol_alignment", (CFG,))
        NN = ("call", "base::ObjectTransmissionInformation::sub_blocks", (CFG,))
        part = ("call", "base::partition", (N(("op", "Div", T, AL)), NN))
        roles = part_roles(part, ["TL", "TS", "NL", "NS"])
        roles[AL] = "Al"
        for gv in inline.variants(crate, g):
            ls = loops.LoopSummary(gv, sink_e)
            sig = loops.signature(ls, roles, norm_e)
            # compare the two nested loops: outer over sub-blocks, inner over the symbols
            ref_l = sig_ref["loops"]
            ok_outer = bool(sig["loops"]) and sig["loops"][0][:3] == ref_l[0][:3]
            # carried offset: init 0, update += bytes with bytes = (s < NL ? TL*Al : TS*Al)
            ok_upd = len(sig["loops"]) >= 2 and sig["loops"][1][4] == ref_l[1][4] and sig["loops"][0][4] == ref_l[0][4]
            ok_ev = [e[2][1:] for e in sig["events"]] == [e[2][1:] for e in sig_ref["events"]] and len(sig["events"]) == 1
            if ok_outer and ok_upd and ok_ev:
                break
        rep.check(ok_outer and ok_upd and ok_ev, R, g.key, "interleave", g.loc(),
                  "symbol m receives, for sub-block s = 0..N, bytes [offset, offset+bytes_s) with bytes_s = TL*Al for s < NL else TS*Al, "
                  "offset advancing by bytes_s per (s, m) (roles of Partition[T/Al, N] as in the RFC)",
                  {"differences": loops.diff_signatures(sig_ref, sig)[:4]}, cfg)
    # ---- decoder: unpack_sub_blocks ----
    rf = refc.fns["deinterleave_ref"]

    def sink_d(ct, t):
        return "copy" if (ct[0] == "call" and isinstance(ct[1], str) and ct[1].endswith("copy_from_slice")) else None

    def norm_d(ev):
        s, args = ev
        d = match(("call", V("im"), (V("dst"), ("agg", "adt:std::ops::Range", (V("a"), V("b"))))), N(args[0]))
        sm = match(("call", V("ix"), (V("src"), ("agg", "adt:std::ops::Range", (V("a"), V("b"))))), N(args[1]))
        if d is None or sm is None:
            return ("copy", (("bad", args),))
        return ("copy", (d["a"], d["b"], sm["a"], sm["b"]))
    rroles = {P(1): "TL", P(2): "TS", P(3): "NL", P(4): "NS", P(5): "Al", P(6): "K", P(9): "i"}
    sig_ref = loops.signature(loops.LoopSummary(rf, sink_d), rroles, norm_d)
    f = [g for k, g in crate.fns.items() if k.endswith("SourceBlockDecoder::unpack_sub_blocks")]
    rep.floor(R, len(f), 1, "SourceBlockDecoder::unpack_sub_blocks", cfg)
    r = dec.roles_sbd(crate)
    names = r["names"]
    for g in f:
        SELF = ("deref", P(1))
        fi = lambda n: ("field", SELF, names.index(n)) if n in names else None
        T, AL, NN, K = fi("symbol_size"), fi("symbol_alignment"), fi("num_sub_blocks"), fi("source_block_symbols")
        if None in (T, AL, NN, K):
            rep.bad(R, g.key, "fields", g.loc(), "block decoder lacks symbol_size/symbol_alignment/num_sub_blocks/source_block_symbols", None, cfg)
            continue
        part = ("call", "base::partition", (N(("op", "Div", T, AL)), NN))
        roles = part_roles(part, ["TL", "TS", "NL", "NS"])
        roles.update({AL: "Al", K: "K", P(4): "i"})
        for gv in inline.variants(crate, g):
            sig = loops.signature(loops.LoopSummary(gv, sink_d), roles, norm_d)
            d = loops.diff_signatures(sig_ref, sig)
            if not d:
                break
        rep.check(not d, R, g.key, "deinterleave", g.loc(),
                  "sub-symbol s of symbol i is written at (sum over s' < s of bytes_s' * K) + bytes_s * i, read from the running offset in "
                  "the symbol: the inverse of the encoder's interleaving", {"differences": d[:4]}, cfg)


def r4(rep, crate, cfg):
    R = "C05-R4"
    fs = [f for k, f in crate.fns.items() if k == "encoder::Encoder::new"]
    if not fs:
        rep.ok(R, "-", "no object encoder in this configuration (python feature)", None, cfg)
    for f in fs:
        def sink(ct, t):
            if ct[0] == "call" and isinstance(ct[1], str) and ct[1].split("::")[-1] in ("extend", "with_encoding_plan", "from_elem", "extend_from_slice", "resize"):
                return ct[1].split("::")[-1]
            return None
        ls = loops.LoopSummary(f, sink)
        # the data of block i: data[start..end] when it lies inside the object, else data[start..] followed by end - len zeros
        from .. import seqs
        okp = False
        det = {}
        wps0 = [e for e in ls.events if e["sink"] == "with_encoding_plan"]
        if len(wps0) == 1 and wps0[0]["loop"] is not None:
            e = wps0[0]
            it = ("item", e["loop"])
            start = ("field", ("field", it, 1), 0)
            end = ("field", ("field", it, 1), 1)
            LEN = ("call", "std::slice::<impl [T]>::len", (P(1),))
            blockt = e["args"][2]
            while blockt[0] in ("ref", "deref", "deref*"):
                blockt = blockt[1]
            m = match(("ite", V("c"), V("a"), V("b")), N(blockt)) or match(("ite", V("c"), V("a"), V("b")), blockt)
            det["block"] = fmt(blockt)[:200]
            if m is not None:
                c, a, b = N(m["c"]), m["a"], m["b"]
                if c == N(("op", "Le", end, LEN)):
                    a, b = b, a
                    c = N(("op", "Lt", LEN, end))
                if c == N(("op", "Lt", LEN, end)):
                    # a: the padded vector, b: the in-range slice
                    inr = seqs.stream_or_elems(crate, b)
                    inr = [seqs.norm_seg(g) for g in inr] if inr else []
                    DATA = P(1)

                    def is_tail(g, upto=None):
                        want_cnt = seqs.norm_seg(seqs.seg(("op", "Sub", upto if upto is not None else ("len", DATA), start), None))["count"]
                        return g["cond"] is None and g["count"] == want_cnt and \
                            seqs._strip_refs(g["value"]) == N(("index", DATA, ("op", "Add", start, seqs.IX)))
                    ok_in = len(inr) == 1 and is_tail(inr[0], end)
                    base = seqs._strip_refs(ls.canon(a))

                    def sink2(ct, t):
                        if ct[0] == "call" and isinstance(ct[1], str):
                            sh = ct[1].split("::")[-1]
                            if ct[1].endswith("Vec::<T, A>::push"):
                                return "push"
                            if sh in ("extend", "extend_from_slice", "resize"):
                                return sh
                        return None
                    ls2 = loops.LoopSummary(f, sink2)
                    base2 = seqs._strip_refs(ls2.canon(a))
                    segs, problems = seqs.segments_of_value(crate, f, ls2, base2, lambda blk_: [frozenset()], scope_loop=e["loop"])
                    segs = [seqs.norm_seg(g) for g in segs]
                    det["padded"] = [{"count": fmt(g["count"])[:80], "value": fmt(g["value"])[:80]} for g in segs]
                    det["problems"] = problems
                    zeros = seqs.norm_seg(seqs.seg(("op", "Sub", end, ("len", DATA)), ("const", 0)))
                    ok_pad = not problems and len(segs) == 2 and is_tail(segs[0]) and segs[1]["cond"] is None and \
                        segs[1]["count"] == zeros["count"] and segs[1]["value"] == ("const", 0)
                    okp = ok_in and ok_pad
        rep.check(okp, R, f.key, "zero-padding-at-tail", f.loc(),
                  "a block is extended only when it reaches past the data (end > data.len()), by exactly end - data.len() zero bytes after data[start..]",
                  det, cfg)
        wps = [e for e in ls.events if e["sink"] == "with_encoding_plan"]
        oki = len(wps) == 1 and N(wps[0]["args"][0]) == ("field", ("item", wps[0]["loop"]), 0) and N(wps[0]["args"][1]) in (P(2), ("ref", P(2)))
        rep.check(oki, R, f.key, "block-numbers", f.loc(), "block encoder i gets source block number i (enumeration index) and the object's configuration", None, cfg)
    cs = [g for k, g in crate.fns.items() if k.endswith("SourceBlockEncoder::create_symbols")]
    for g in cs:
        tb = terms.TermBuilder(g)
        exits = g.cfg.exits()
        ok = False
        for ex in exits:
            for c, v in tb.path_conditions(ex):
                c2, v2 = terms.canon_cond(N(c), v)
                if v2 and c2 == N(("op", "Eq", ("op", "Rem", ("call", "std::slice::<impl [T]>::len", (P(2),)),
                                        ("call", "base::ObjectTransmissionInformation::symbol_size", (P(1),))), ("const", 0))):
                    ok = True
        rep.check(ok, R, g.key, "whole-symbols", g.loc(), "create_symbols accepts only data whose length is a multiple of T", None, cfg)
        # the non-interleaved branch cuts T-byte chunks
        rt = N(tb.return_term())
        ch = terms.find(("call", V("c", lambda x: isinstance(x, str) and x.endswith("::chunks")), (P(2), V("n"))), rt)
        okc = ch is not None and N(ch[0]["n"]) == N(("call", "base::ObjectTransmissionInformation::symbol_size", (P(1),)))
        rep.check(okc, R, g.key, "chunks-of-T", g.loc(), "without sub-blocking, symbol m is bytes [m*T, (m+1)*T) of the block", None, cfg)
