"""C07 — results independent of build, CPU, back-end, caching: structural preconditions.

R1 debug/release twins: every call or store that is compiled in only one of {debug, release} is
   (c) confined to debug-only state / pure, or one of the reviewed twins (a) errata-11 start column,
   (b) fifth-phase matrix update skipped in release, (d) the HDPC debugging write; anything else is reported.
R3 CPU paths: C11 (gating, exact cover) — run under this property as well.
R4 std/no_std and plan provenance: both ways of building a block encoder use the same sparse threshold
   constant; the planned path and the direct path call the same generator.
"""
from .. import mir, terms, xconfig
from ..terms import V, match, fmt
from . import dec
from ..absint import places_of

P = lambda i: ("param", i)


def run_twins(rep, dev, rel, cfgname):
    R = "C07-R1"
    dev_names = xconfig.adt_field_names(dev)
    rel_names = xconfig.adt_field_names(rel)
    debug_fields = dev_names - rel_names
    debug_fns = set(dev.fns) - set(rel.fns)
    rep.check(not (set(rel.fns) - set(dev.fns)), R, "crate", "release-only-functions", "-",
              "no function exists only in the release build", {"fns": sorted(set(rel.fns) - set(dev.fns))[:5]}, cfgname)
    rel_only_total = 0
    dev_only_mut = 0
    pure_cache = {}

    def fn_is_harmless(k, depth=0):
        """debug-only function: does it change state that release code reads?"""
        if k in pure_cache:
            return pure_cache[k]
        pure_cache[k] = True
        f = dev.fns.get(k)
        if f is None:
            return True
        tb = xconfig.NamedTB(f)
        ok = True
        for sp, lst in xconfig.sites(dev, f).items():
            for kind, callee, node, b, i in lst:
                if kind == "store":
                    place = tb.place(b, i, node["lhs"])
                    rf = xconfig.root_field(place)
                    through_self = terms.find(("deref", ("param", 1)), place) is not None
                    selfmut = f.f.get("inputs") and f.f["inputs"][0].get("k") == "ref" and f.f["inputs"][0].get("mut")
                    if through_self and selfmut and rf not in debug_fields:
                        ok = False
                else:
                    mp = xconfig.mut_params(dev, callee)
                    if mp:
                        for j in mp:
                            if j < len(node["args"]):
                                a = tb.operand(b, "T", node["args"][j])
                                if terms.find(("param", 1), a) is not None and f.f["inputs"][0].get("mut") and \
                                        xconfig.root_field(a) not in debug_fields:
                                    if callee in debug_fns:
                                        ok = ok and fn_is_harmless(callee, depth + 1)
                                    else:
                                        ok = False
        pure_cache[k] = ok
        return ok

    twins_found = {"a": 0, "b": 0, "d": 0}
    compared_fns = 0
    compared_sites = 0
    for k in sorted(set(dev.fns) & set(rel.fns)):
        fd, fr = dev.fns[k], rel.fns[k]
        sd, sr = xconfig.sites(dev, fd), xconfig.sites(rel, fr)
        d_only = xconfig.only_in(sd, sr)
        r_only = xconfig.only_in(sr, sd)
        compared_fns += 1
        tbd = xconfig.NamedTB(fd)
        tbr = xconfig.NamedTB(fr)
        ssd = xconfig.SpanSlice(fd, debug_fields)
        ssr = xconfig.SpanSlice(fr, debug_fields)
        # same source span in both builds: the operands must be the same terms (a cfg-selected local or
        # cfg!() expression feeding an unchanged call is a difference too)
        for sp, dl, rl in xconfig.common(sd, sr):
            kind, callee, nd, bd_, id_ = dl
            _, _, nr, br_, ir_ = rl
            compared_sites += 1
            if kind == "call":
                ad = tuple(ssd.of_operand(a) for a in nd["args"])
                ar = tuple(ssr.of_operand(a) for a in nr["args"])
            else:
                ad = (ssd.of_store(nd),)
                ar = (ssr.of_store(nr),)
            if ad == ar:
                continue
            where = mir.stmt_loc(nd)
            short = (callee or "store").split("::")[-1]
            def show(x):
                return sorted("%s:%d:%d %s" % (e[0][0].split("/")[-1], e[0][1], e[0][2], e[1]) if isinstance(e[0], tuple) else str(e) for e in x)[:8]
            diff = [{"operand": j, "debug_only_defs": show(a - b), "release_only_defs": show(b - a)}
                    for j, (a, b) in enumerate(zip(ad, ar)) if a != b]
            # errata-11 twin: nothing but the computation of the start column (last operand) differs; the receiver's
            # slice contains the start column as well because the call itself may write through &mut self
            last = (ad[-1] ^ ar[-1]) if ad and len(ad) == len(ar) else frozenset()
            if kind == "call" and short == "fma_rows" and "pi_solver" in callee and len(ad) == len(ar) and \
                    all((a ^ b) <= last for a, b in zip(ad[:-1], ar[:-1])):
                twins_found["a"] += 1
                rep.ok(R, where, "%s: one call %s whose start column alone is computed differently in the two builds (errata 11 start column)" % (
                    k.split("::")[-1], short), diff, cfgname)
                continue
            mp = xconfig.mut_params(dev, callee, nd) if kind == "call" else [0]
            if kind == "call" and mp is not None and not mp:
                continue          # pure call: its result is compared where it is used
            if kind == "store":
                pl = tbd.place(bd_, id_, nd["lhs"])
                if terms.find(("deref", ("param", 1)), pl) is None:
                    continue      # local temporary; compared where it is used
                if xconfig.root_field(pl) in debug_fields:
                    continue
            rep.bad(R, k, "operands-differ:" + short, where,
                    "%s: the same %s is compiled with differently computed operands in debug and release builds" % (k.split("::")[-1],
                        "call of " + short if kind == "call" else "store"), diff, cfgname)
        if not d_only and not r_only:
            continue
        rel_calls = []
        for sp, (kind, callee, node, b, i) in r_only:
            rel_only_total += 1
            if kind == "call":
                mp = xconfig.mut_params(rel, callee, node)
                if mp is not None and not mp:
                    rel_only_total -= 1
                    continue      # pure sub-expression of a release-only statement
                args = tuple(xconfig.canon(tbr.operand(b, "T", a)) for a in node["args"])
                rel_calls.append([callee, args, node, False])
            else:
                rep.bad(R, k, "release-only-store", mir.stmt_loc(node), "a store is compiled only in release builds", None, cfgname)
        for sp, (kind, callee, node, b, i) in d_only:
            where = mir.stmt_loc(node)
            if kind == "store":
                place = tbd.place(b, i, node["lhs"])
                rf = xconfig.root_field(place)
                through_self = terms.find(("deref", ("param", 1)), place) is not None
                if not through_self:
                    continue      # local temporaries of debug-only computations
                dev_only_mut += 1
                rep.check(rf in debug_fields, R, k, "debug-only-store:" + str(rf), where,
                          "a store compiled only with debug assertions targets debug-only state (%s)" % rf, None, cfgname)
                continue
            mp = xconfig.mut_params(dev, callee, node)
            if callee in debug_fns:
                dev_only_mut += 1
                rep.check(fn_is_harmless(callee), R, k, "debug-only-fn:" + callee.split("::")[-1], where,
                          "%s exists only with debug assertions and changes no state that release code reads" % callee.split("::")[-1],
                          None, cfgname)
                continue
            if mp is not None and not mp:
                continue          # pure call (reads only), e.g. inside a debug_assert! condition
            if callee not in dev.fns and not (node.get("trait") and node.get("callee_krate") == dev.d["crate"]):
                # library call: mutating only if it receives &mut of non-debug state
                args = [tbd.operand(b, "T", a) for a in node["args"]]
                def tys(raw):
                    t_ = raw.get("ty", "")
                    return t_ if isinstance(t_, str) else t_.get("s", "")
                muts = [a for a, raw in zip(args, node["args"]) if tys(raw).startswith("&mut")]
                if not muts or all(terms.find(("deref", ("param", 1)), a) is None or xconfig.root_field(a) in debug_fields for a in muts):
                    continue
            dev_only_mut += 1
            args = tuple(xconfig.canon(tbd.operand(b, "T", a)) for a in node["args"])
            if mp and all(j < len(args) and xconfig.is_fresh(args[j]) for j in mp):
                rep.ok(R, where, "%s: debug-only call %s mutates a temporary that exists only in the debug build" % (
                    k.split("::")[-1], callee.split("::")[-1]), None, cfgname)
                continue
            recv = xconfig.root_field(args[0]) if args else None
            short = callee.split("::")[-1]
            # (a) errata-11 twin: same callee, same first three operands, start column differs
            twin = None
            for rc in rel_calls:
                if not rc[3] and rc[0] == callee and len(rc[1]) == len(args) and rc[1][:-1] == args[:-1] and short == "fma_rows":
                    twin = ("a", rc)
                    break
            if twin is None:
                for rc in rel_calls:
                    if not rc[3] and short == "fma_rows" and rc[0].split("::")[-1] == "record_fma_rows" and rc[1] == args[:-1]:
                        twin = ("b", rc)
                        break
            if twin is not None:
                twin[1][3] = True
                twins_found[twin[0]] += 1
                rep.ok(R, where, "%s: debug call %s(.., %s) has the release twin %s(..%s) with identical row operands (%s)" % (
                    k.split("::")[-1], short, fmt(args[-1])[:20], twin[1][0].split("::")[-1],
                    (", " + fmt(twin[1][1][-1])[:40]) if twin[0] == "a" else "",
                    "errata 11 start column" if twin[0] == "a" else "matrix update skipped, operation still recorded"), None, cfgname)
                continue
            if recv in debug_fields:
                rep.ok(R, where, "%s: debug-only call %s mutates debug-only state %s" % (k.split("::")[-1], short, recv), None, cfgname)
                continue
            # (d) reviewed exception: HDPC debugging write in fma_rows_with_pi
            if k.endswith("fma_rows_with_pi") and short == "set" and "DenseOctetMatrix" in callee:
                twins_found["d"] += 1
                rep.ok(R, where, "fma_rows_with_pi: reviewed exception (d): debug-only write of the current pivot column of an HDPC row, "
                       "never read afterwards (DESIGN.md C07-R1(d))", None, cfgname)
                continue
            rep.bad(R, k, "debug-only-mutation:" + short, where,
                    "%s: a call compiled only with debug assertions mutates state that release code reads (%s on %s)" % (k.split("::")[-1], short, recv),
                    {"args": [fmt(a)[:60] for a in args]}, cfgname)
        for rc in rel_calls:
            if not rc[3]:
                rep.bad(R, k, "release-only-call:" + rc[0].split("::")[-1], mir.stmt_loc(rc[2]),
                        "%s: a call compiled only in release builds has no debug twin with the same operands" % k.split("::")[-1],
                        {"args": [fmt(a)[:60] for a in rc[1]]}, cfgname)
    # what was compared (fail closed if the comparison saw nothing); the twins themselves are not demanded:
    # a tree without the errata-11 short-cut would satisfy the property as well
    rep.check(bool(dev.d.get("debug_assertions")) and not rel.d.get("debug_assertions"), R, "crate", "configs-differ", "-",
              "the two compared builds really are debug_assertions on / off", None, cfgname)
    rep.floor(R, compared_fns, 450, "functions present in both builds and compared site by site", cfgname)
    rep.floor(R, compared_sites, 2000, "call/store sites with the same source span compared operand by operand", cfgname)
    rep.ok(R, "-", "differences classified: %d errata-11 twins, %d fifth-phase twin, %d reviewed HDPC write, %d release-only statements" % (
        twins_found["a"], twins_found["b"], twins_found["d"], rel_only_total), None, cfgname)
    # side conditions of the twins ------------------------------------------------------------
    for crate, nm in ((dev, "dev"), (rel, "rel")):
        fr = [f for k, f in crate.fns.items() if k.endswith("::fma_rows") and "pi_solver" in k]
        fp = [f for k, f in crate.fns.items() if k.endswith("::fma_rows_with_pi")]
        if not fr or not fp:
            rep.bad(R, "pi_solver", "twin-side-anchor", "-", "fma_rows / fma_rows_with_pi not found", None, cfgname)
            continue
        f = fr[0]
        tb = terms.TermBuilder(f)
        calls = [(bi, t) for bi, t in f.calls()]
        ok = len(calls) == 1 and (calls[0][1].get("resolved") or "").endswith("fma_rows_with_pi")
        if ok:
            a = [tb.operand(calls[0][0], "T", x) for x in calls[0][1]["args"]]
            ok = a[0] == P(1) and a[1] == P(2) and a[2] == P(3) and a[-1] == P(5) and terms.find(P(5), ("x",) + tuple(a[:-1])) is None
        rep.check(ok, R, f.key, "start-col-forwarded[%s]" % nm, f.loc(), "fma_rows forwards (i, i', beta) unchanged and the start column only as start column", None, cfgname)
        g = fp[0]
        tbg = terms.TermBuilder(g)
        # (b) the operation is recorded unconditionally, first
        rec = [(bi, t) for bi, t in g.calls() if (t.get("resolved") or "").endswith("record_fma_rows")]
        okr = len(rec) == 1 and all(g.cfg.dominates(rec[0][0], e) for e in g.cfg.exits())
        if okr:
            a = [terms.normalise(terms.strip_casts(tbg.operand(rec[0][0], "T", x))) for x in rec[0][1]["args"]]
            okr = a[0] == P(1) and a[1] == P(2) and a[2] == P(3) and terms.find(P(4), a[3]) is not None
        rep.check(okr, R, g.key, "records-unconditionally[%s]" % nm, g.loc(),
                  "fma_rows_with_pi records the symbol operation (i, i', beta) on every path before touching the matrix", None, cfgname)
        # (a) start_col flows only into add_assign_rows' start column
        nparam = g.argc
        SC = P(nparam)
        bad = []
        for bi, t in g.calls():
            args = [tbg.operand(bi, "T", x) for x in t["args"]]
            for j, a in enumerate(args):
                if terms.find(SC, a) is not None:
                    if not ((t.get("callee") or "").endswith("add_assign_rows") and j == len(args) - 1 and a == SC):
                        bad.append((t.get("callee"), j))
        for blk in g.blocks:
            if blk["cleanup"]:
                continue
            tt = blk["term"]
            if tt["t"] == "switch" and terms.find(SC, tbg.operand(blk["i"], None, tt["discr"])) is not None:
                bad.append(("branch", blk["i"]))
        rep.check(not bad, R, g.key, "start-col-only-add-assign-rows[%s]" % nm, g.loc(),
                  "the start column influences nothing but the column at which BinaryMatrix::add_assign_rows starts", {"other_uses": bad}, cfgname)
    # (b) in release the matrix A is dead after the fifth phase
    ex = [f for k, f in rel.fns.items() if k.endswith("IntermediateSymbolDecoder::<T>::execute")]
    for f in ex:
        fifth = [bi for bi, t in f.calls() if (t.get("resolved") or t.get("callee") or "").endswith("::fifth_phase")]
        ok = len(fifth) == 1
        reads = []
        if ok:
            after = f.cfg.reachable_from(f.blocks[fifth[0]]["term"]["target"])
            for b in after:
                blk = f.blocks[b]
                for node in blk["stmts"] + [blk["term"]]:
                    if node.get("t") == "drop":
                        continue
                    for p in places_of(node):
                        for e in p["proj"]:
                            if e["p"] == "field" and e.get("name") == "A":
                                reads.append(mir.stmt_loc(node))
        rep.check(ok and not reads, R, f.key, "matrix-dead-after-fifth-phase", f.loc(),
                  "in release builds nothing reads the matrix A after the fifth phase (so skipping its update cannot change results)",
                  {"reads": reads[:4]}, cfgname)


def run_threshold(rep, crate, cfg):
    R = "C07-R4"
    news = [f for k, f in crate.fns.items() if k.endswith("SourceBlockEncoder::new")]
    rep.floor(R, len(news), 1, "SourceBlockEncoder::new", cfg)
    thr = [c for c in crate.consts.values() if c["path"].endswith("SPARSE_MATRIX_THRESHOLD")]
    rep.floor(R, len(thr), 1, "sparse threshold constant", cfg)
    if not thr:
        return
    TV = thr[0]["value"]
    gen = [f for k, f in crate.fns.items() if k.endswith("encoder::gen_intermediate_symbols")]
    users = []
    for k, f in crate.fns.items():
        tb = None
        for bi, t in f.calls():
            if (t.get("resolved") or t.get("callee") or "").endswith("encoder::gen_intermediate_symbols"):
                tb = tb or terms.TermBuilder(f)
                a = [terms.normalise(terms.strip_casts(tb.operand(bi, "T", x))) for x in t["args"]]
                users.append((f, a, t))
    rep.floor(R, len(users), 1, "callers of the direct intermediate-symbol generator", cfg)
    for f, a, t in users:
        rep.check(a[-1] == ("const", TV), R, f.key, "threshold-constant", mir.stmt_loc(t),
                  "%s solves with the crate's one sparse threshold (%d) - planned and unplanned encoders agree" % (f.key.split("::")[-1], TV),
                  {"threshold_arg": fmt(a[-1])}, cfg)
    # dense/sparse selection inside the generator: K' >= threshold, same test as the decoder (C02-R1 same-threshold)
    for g in gen:
        tb = terms.TermBuilder(g)
        sel = []
        for blk in g.blocks:
            bc = tb.branch_cond(blk["i"]) if (not blk["cleanup"] and blk["i"] in g.cfg.reach) else None
            if bc is not None:
                c = terms.normalise(terms.strip_casts(bc[0]))
                if terms.find(P(3), c) is not None:
                    sel.append(c)
        want = terms.normalise(("op", "Le", P(3), ("call", "systematic_constants::extended_source_block_symbols",
                                                   (terms.normalise(terms.strip_casts(("call", "std::slice::<impl [T]>::len", (P(1),)))),))))
        rep.check(len(sel) == 1 and sel[0] == want, R, g.key, "selection-test", g.loc(),
                  "the generator picks the sparse matrix iff K' >= threshold", {"found": [fmt(c)[:100] for c in sel]}, cfg)


def _strip_refs(t):
    while isinstance(t, tuple) and t and t[0] in ("ref", "deref", "deref*"):
        t = t[1]
    return t


def run_constructors(rep, crate, cfg):
    """R4b: every way of building a block encoder (std: cached plan; no_std: direct solve; explicit plan) stores the
    symbols produced by create_symbols(config, data) and derives the intermediate symbols from exactly those symbols,
    the configured symbol size, and a plan / solve for exactly that many symbols."""
    R = "C07-R4"
    sites = 0
    N = lambda t: terms.normalise(terms.strip_casts(t))
    for k, f in sorted(crate.fns.items()):
        if f.f.get("impl_trait"):
            continue      # derived Clone copies field by field
        tb = None
        for blk in f.blocks:
            if blk["cleanup"] or blk["i"] not in f.cfg.reach:
                continue
            for i, s in enumerate(blk["stmts"]):
                if not (s.get("s") == "assign" and s["rv"]["r"] == "aggregate" and (s["rv"].get("adt") or "").endswith("encoder::SourceBlockEncoder")):
                    continue
                tb = tb or terms.TermBuilder(f)
                sites += 1
                ops = {fl: N(tb.operand(blk["i"], i, o)) for fl, o in zip(s["rv"]["fields"], s["rv"]["ops"])}
                where = mir.stmt_loc(s)
                short = k.split("::")[-1]
                S = ops.get("source_symbols")
                I = ops.get("intermediate_symbols")
                m = match(("call", V("c", lambda x: isinstance(x, str) and x.endswith("::create_symbols")), (V("cfg"), V("data"))), S) if S else None
                rep.check(m is not None and m["cfg"][0] == "param" and m["data"][0] == "param", R, k, "stores-created-symbols", where,
                          "%s stores the symbols made by create_symbols(config, data)" % short, {"source_symbols": fmt(S)[:120] if S else None}, cfg)
                gens = []
                def visit(t):
                    if t[0] == "call" and isinstance(t[1], str) and t[1].split("::")[-1] in ("gen_intermediate_symbols", "gen_intermediate_symbols_with_plan"):
                        gens.append(t)
                    return t
                if I:
                    terms.map_term(I, visit)
                ok = len(gens) == 1
                det = {"intermediate_symbols": fmt(I)[:200] if I else None}
                if ok:
                    g = gens[0]
                    a = g[2]
                    ok = _strip_refs(a[0]) == S
                    ss = match(("call", V("c", lambda x: isinstance(x, str) and x.endswith("::symbol_size")), (V("cfg"),)), _strip_refs(a[1]))
                    ok = ok and ss is not None and m is not None and _strip_refs(ss["cfg"]) == _strip_refs(m["cfg"])
                rep.check(ok, R, k, "solves-from-stored-symbols", where,
                          "%s derives the intermediate symbols from the very symbols it stores and the configured symbol size" % short, det, cfg)
                if not ok:
                    continue
                g = gens[0]
                if g[1].endswith("_with_plan"):
                    plan = _strip_refs(g[2][2])
                    # the plan's operations: either the cached/generated plan for len(symbols), or a caller's plan guarded by the count assertion
                    got = terms.find(("call", V("c", lambda x: isinstance(x, str) and x.endswith("get_or_generate_source_block_encoding_plan")), (V("n"),)), plan)
                    if got is not None:
                        n = _strip_refs(got[0]["n"])
                        okp = n[0] == "call" and n[1].endswith("::len") and _strip_refs(n[2][0]) == S
                        rep.check(okp, R, k, "plan-for-this-count", where,
                                  "%s takes the cached plan for exactly len(source_symbols)" % short, {"count": fmt(n)[:100]}, cfg)
                    else:
                        root = plan
                        while isinstance(root, tuple) and root[0] in ("field", "ref", "deref", "deref*"):
                            root = root[1]
                        dnf = terms.path_dnf(tb, blk["i"])
                        okp = False
                        if root[0] == "param":
                            for conj in dnf:
                                for c_, truth in conj:
                                    c_ = N(c_)
                                    if truth and c_[0] == "op" and c_[1] == "Eq":
                                        l, r = _strip_refs(c_[2]), _strip_refs(c_[3])
                                        for x, y in ((l, r), (r, l)):
                                            if x[0] == "call" and x[1].endswith("::len") and _strip_refs(x[2][0]) == S and terms.find(root, y) is not None:
                                                okp = True
                            okp = okp and len(dnf) >= 1 and all(any(True for _ in conj) for conj in dnf)
                        rep.check(okp, R, k, "plan-count-asserted", where,
                                  "%s refuses a caller-supplied plan unless it was made for len(source_symbols)" % short, None, cfg)
    rep.floor(R, sites, 2, "SourceBlockEncoder construction sites", cfg)
