"""C07-R6: the dense back-end's row addition covers the row from `start_col` to the row's last word, in both rows alike.

`BinaryMatrix::add_assign_rows(dest, src, start_col)` may leave the columns left of `start_col` undefined, nothing else.  The
sparse back-end is covered by C07-R5 (loop trip counts).  The dense back-end has no loop of its own: it hands two word ranges
of `elements` to `get_both_ranges` / `add_assign_binary`.  With rww = ceil(width / 64) the ranges must be
    [dest * rww + off, +len)  and  [src * rww + off, +len)      with   off <= start_col / 64   and   off + len = rww.
The three arguments are extracted as terms (helper methods replaced by their return terms); they have to be built from
+, -, *, /, %, ceil-division, constants, the parameters and the width field only - i.e. quasi-affine in (width, start_col)
with period 64 and affine in the row numbers.  Such terms are decided by evaluating the *terms* (not the program) on every
width in 1..=192 with every start_col < width, for two pairs of rows: all residue pairs and two quotients each.
A range that is one word short when [start_col, width) straddles a word boundary - invisible in debug builds, which pass
start_col = 0 - differs from the sparse back-end's result only in release builds (seed C07-agent-10).

Decided: which words of the two rows are combined.  Not decided: the xor itself (C11) or the solver's use of start_col."""
from .. import mir, terms

R = "C07-R6"
Nn = lambda a: terms.normalise(terms.strip_casts(terms.simplify(a)))


class NotUnderstood(Exception):
    pass


def find_dense(crate):
    """(adt, width field index, key of add_assign_rows)"""
    for ap, adt in crate.adts.items():
        if not adt.get("variants") or len(adt["variants"]) != 1:
            continue
        fl = adt["variants"][0]["fields"]
        tys = [f["ty"].get("s", "").replace("alloc::", "std::") for f in fl]
        if tys.count("std::vec::Vec<u64>") != 1 or any(t.endswith("Vec<u16>") for t in tys):
            continue
        width = None
        for k, g in crate.fns.items():
            if (g.f.get("impl_self") or {}).get("adt") != ap or g.argc != 1 or g.f["output"].get("s") != "usize":
                continue
            try:
                t = Nn(terms.TermBuilder(g).return_term())
            except Exception:
                continue
            if t[0] == "ceildiv" and t[2] == ("const", 64) and t[1][0] == "field" and t[1][1] == ("deref", ("param", 1)):
                width = t[1][2]
        adds = [k for k, g in crate.fns.items() if (g.f.get("impl_self") or {}).get("adt") == ap and k.endswith("::add_assign_rows")]
        if width is not None and len(adds) == 1:
            return ap, width, adds[0], tys.index("std::vec::Vec<u64>")
    return None


def expand(crate, t, depth=0):
    """calls to functions of the crate replaced by their return terms"""
    if not isinstance(t, tuple):
        return t
    if t and t[0] == "call" and isinstance(t[1], str) and t[1] in crate.fns and depth < 6:
        g = crate.fns[t[1]]
        try:
            rt = Nn(terms.TermBuilder(g).return_term())
        except Exception:
            raise NotUnderstood("return value of %s" % t[1])
        args = [expand(crate, a, depth) for a in t[2]]
        return expand(crate, terms.subst(rt, {i + 1: a for i, a in enumerate(args)}), depth + 1)
    return tuple(expand(crate, x, depth) if isinstance(x, tuple) else x for x in t)


def ev(t, env, wfield):
    k = t[0]
    if k == "const" and isinstance(t[1], int):
        return t[1]
    if k == "param" and t[1] in env:
        return env[t[1]]
    if k in ("ref", "deref", "deref*") and len(t) == 2 and t[1][0] in ("agg", "field", "op", "const", "ceildiv"):
        return ev(t[1], env, wfield)
    if k == "field":
        b = t[1]
        while b[0] in ("ref", "deref*"):
            b = b[1]
        if b in (("deref", ("param", 1)), ("param", 1)) and t[2] == wfield:
            return env["W"]
        if b[0] == "agg" and isinstance(t[2], int) and t[2] < len(b[2]):
            return ev(b[2][t[2]], env, wfield)
        raise NotUnderstood(terms.fmt(t)[:80])
    if k == "ceildiv":
        a, b = ev(t[1], env, wfield), ev(t[2], env, wfield)
        if b <= 0:
            raise NotUnderstood("division by %d" % b)
        return -((-a) // b)
    if k == "op" and len(t) == 4:
        a, b = ev(t[2], env, wfield), ev(t[3], env, wfield)
        if t[1] == "Add":
            return a + b
        if t[1] == "Sub":
            if a < b:
                raise ArithmeticError("%s underflows" % terms.fmt(t)[:80])
            return a - b
        if t[1] == "Mul":
            return a * b
        if t[1] in ("Div", "Rem"):
            if b <= 0:
                raise NotUnderstood("division by %d" % b)
            return a // b if t[1] == "Div" else a % b
        if t[1] == "Shr":
            return a >> b
    raise NotUnderstood(terms.fmt(t)[:80])


def run(rep, crate, cfg):
    d = find_dense(crate)
    rep.floor(R, 1 if d else 0, 1, "dense bit-packed matrix with add_assign_rows", cfg)
    if not d:
        return
    ap, wfield, key, pk = d
    f = crate.fns[key]
    where = f.loc()
    tb = terms.TermBuilder(f)
    # the single hand-over of two row ranges of the packed field
    sites = []
    for blk in f.blocks:
        t = blk["term"]
        if blk["cleanup"] or t["t"] != "call" or blk["i"] not in f.cfg.reach:
            continue
        ct = tb.call_term(blk["i"], t)
        if ct[0] != "call" or len(ct[2]) != 4:
            continue
        a0 = Nn(ct[2][0])
        while a0[0] in ("ref", "deref*"):
            a0 = a0[1]
        if a0 == ("field", ("deref", ("param", 1)), pk):
            sites.append(ct)
    rep.check(len(sites) == 1, R, key, "range-site", where,
              "the row addition hands exactly one pair of word ranges of the packed field to a (elements, i, j, len) helper",
              {"sites": len(sites)}, cfg)
    if len(sites) != 1:
        return
    try:
        a_d, a_s, a_len = (expand(crate, Nn(x)) for x in sites[0][2][1:4])
    except NotUnderstood as e:
        rep.bad(R, key, "range-terms", where, "range arguments are not arithmetic terms: %s" % e, None, cfg)
        return
    bad, n = None, 0
    try:
        for (dr, sr) in ((0, 1), (7, 3)):
            for W in range(1, 193):
                rww = -((-W) // 64)
                for c in range(0, W):
                    env = {2: dr, 3: sr, 4: c, "W": W}
                    sd, ss, ln = ev(a_d, env, wfield), ev(a_s, env, wfield), ev(a_len, env, wfield)
                    n += 1
                    off = sd - dr * rww
                    if not (off == ss - sr * rww and 0 <= off <= c // 64 and off + ln == rww):
                        bad = {"width": W, "start_col": c, "dest": dr, "src": sr, "dest_start": sd, "src_start": ss, "len": ln,
                               "row_words": rww}
                        raise StopIteration
    except StopIteration:
        pass
    except ArithmeticError as e:
        bad = {"arithmetic": str(e)}
    except NotUnderstood as e:
        rep.bad(R, key, "range-terms", where, "range arguments outside the quasi-affine vocabulary: %s" % e, None, cfg)
        return
    rep.check(bad is None, R, key, "row-range", where,
              "both ranges start at the same word offset off <= start_col/64 of their rows and end with the row: off + len = ceil(width/64) "
              "(terms decided on all residues of width and start_col modulo 64)",
              {"dest_start": terms.fmt(a_d)[:160], "src_start": terms.fmt(a_s)[:160], "len": terms.fmt(a_len)[:120],
               "term_points": n, "counterexample": bad}, cfg)
