"""C07-R5: the sparse back-end's bit-packed dense tail is processed one whole row at a time.

Property C07 demands that the dense and the sparse matrix back-end give the same results.  The sparse back-end keeps its
last `nd` columns bit-packed, ceil(nd / 64) words per row.  A loop over those words whose trip count is not the row's word
count silently drops (or repeats) up to 64 columns for some widths only - which a test with one matrix size never sees.

For every method of the sparse matrix that touches the packed field inside a loop, and for every residue r of
nd = 64 q + r (q symbolic), the abstract interpreter (SymInterval) gives the loop's counter its exact affine bounds; from
them the trip count N is an affine form in q.  Rule:  N + P = ceil(nd / 64)  where P is the number of accesses to the packed
field that are peeled in front of the loop (the row scan handles its first, partially filled word before the loop).
Loops in either spelling are understood: `for w in a..b` (range atom) and `while col < B { ..; col += 64; word += 1 }`
(induction atom with step; the indexed word counter must then advance by exactly one per iteration).

What is decided: the number of packed words visited per row, for all widths.  Not decided: which bits are tested inside a word.
"""
from .. import absint, mir, terms
from ..aff import Aff
from ..absint import IntV


def find_backend(crate):
    """(adt path, index of the packed Vec<u64> field, index of the usize field counting packed columns)"""
    for ap, adt in crate.adts.items():
        if not adt.get("variants") or len(adt["variants"]) != 1:
            continue
        fl = adt["variants"][0]["fields"]
        pk = [i for i, f in enumerate(fl) if f["ty"].get("s", "").replace("alloc::", "std::") in ("std::vec::Vec<u64>",)]
        maps = [i for i, f in enumerate(fl) if f["ty"].get("s", "").endswith("Vec<u16>")]
        if len(pk) != 1 or not maps:
            continue
        for k, g in crate.fns.items():
            if (g.f.get("impl_self") or {}).get("adt") != ap or g.argc != 1 or g.f["output"].get("s") != "usize":
                continue
            try:
                t = terms.normalise(terms.simplify(terms.normalise(terms.TermBuilder(g).return_term())))
            except Exception:
                continue
            if t[0] == "ceildiv" and t[2] == ("const", 64) and t[1][0] == "field" and t[1][1] == ("deref", ("param", 1)):
                return ap, pk[0], t[1][2], k
    return None


def packed_accesses(fn, pf):
    """[(block, index operand)] of Index/IndexMut calls on (*self).<packed field>"""
    out = []
    for blk in fn.blocks:
        if blk["cleanup"]:
            continue
        t = blk["term"]
        if t["t"] != "call" or not t.get("callee"):
            continue
        c = t["callee"]
        if not (c.endswith("::index") or c.endswith("::index_mut")) or len(t["args"]) != 2:
            continue
        a0 = t["args"][0]
        if a0.get("o") not in ("copy", "move") or a0["proj"]:
            continue
        ds = [s for b2 in fn.blocks if not b2["cleanup"] for s in b2["stmts"]
              if s["s"] == "assign" and s["lhs"]["l"] == a0["l"] and not s["lhs"]["proj"]]
        if len(ds) != 1 or ds[0]["rv"]["r"] != "ref":      # the receiver is a compiler temporary with a single definition
            continue
        d = ds[0]
        p = d["rv"].get("p") or d["rv"].get("a") or {}
        pr = p.get("proj") or []
        if p.get("l") == 1 and len(pr) == 2 and pr[0].get("p") == "deref" and pr[1].get("p") == "field" and pr[1].get("i") == pf:
            out.append((blk["i"], t["args"][1], blk))
    return out


def root_local(fn, blk, o):
    seen = 0
    while isinstance(o, dict) and o.get("o") in ("copy", "move") and not o["proj"] and seen < 8:
        seen += 1
        l = o["l"]
        if fn.locals[l].get("user"):
            return l
        d = None
        for s in blk["stmts"]:
            if s["s"] == "assign" and s["lhs"]["l"] == l and not s["lhs"]["proj"]:
                d = s
        if d is None or d["rv"]["r"] != "use":
            return l
        o = d["rv"]["a"]
    return None


def plus_one_once(fn, body, l):
    """local l has exactly one assignment inside the loop body and it is l = l + 1"""
    defs = []
    for b in body:
        blk = fn.blocks[b]
        if blk["cleanup"]:
            continue
        for s in blk["stmts"]:
            if s["s"] == "assign" and s["lhs"]["l"] == l and not s["lhs"]["proj"]:
                defs.append((blk, s))
    if len(defs) != 1:
        return False
    blk, s = defs[0]
    rv = s["rv"]
    if rv["r"] == "binop" and rv["op"] in ("Add", "AddUnchecked") and rv["b"].get("o") == "const" and rv["b"].get("v") == 1:
        return root_local(fn, blk, rv["a"]) == l
    if rv["r"] == "use" and rv["a"].get("o") in ("move", "copy") and [e.get("p") for e in rv["a"]["proj"]] == ["field"]:
        tl = rv["a"]["l"]
        for b2 in fn.blocks:
            for s2 in b2["stmts"]:
                if s2["s"] == "assign" and s2["lhs"]["l"] == tl and s2["rv"]["r"] == "binop" and s2["rv"]["op"] == "AddWithOverflow":
                    return s2["rv"]["b"].get("o") == "const" and s2["rv"]["b"].get("v") == 1 and root_local(fn, b2, s2["rv"]["a"]) == l
    return False


def floor_div(a, k):
    """floor(a / k) for an affine form whose atom coefficients are multiples of k"""
    if any(c % k for _, c in a.t):
        return None
    return Aff(a.c // k, {at: c // k for at, c in a.t})


def entry(crate, fn, adtp, pf, nf, r):
    an = absint.Analysis(crate)
    st = absint.State()
    adt = crate.adts[adtp]
    q = an.new_atom("q", 1 if r == 0 else 0, 1 << 20)
    nd_af = Aff(r, {q: 64})
    rng = an.rng_fn(st)
    nd = IntV(nd_af.lo(rng), nd_af.hi(rng), 64, False, nd_af, nd_af)
    fields = []
    sparse_w = None
    for i, fl in enumerate(adt["variants"][0]["fields"]):
        n = fl["name"]
        if i == nf:
            fields.append(nd)
        elif i == pf:
            dlen = an.atom_val("len(%s)" % n, 0, 1 << 40)
            oid = an.new_obj(st, absint.Obj("slice", IntV.top(64, False), dlen, esize=8, name=n))
            fields.append(absint.SliceV(oid, dlen, True))
        elif n == "width":
            # logical width = sparse columns + packed columns (the packed columns are the trailing ones)
            sparse_w = an.atom_val("sparse_columns", 0, 1 << 20)
            w_af = sparse_w.exact() + nd_af
            fields.append(IntV(w_af.lo(rng), w_af.hi(rng), 64, False, w_af, w_af))
        elif fl["ty"].get("s") == "usize":
            fields.append(an.atom_val(n, 0, 1 << 24))
        else:
            fields.append(an.entry_value(st, fl["ty"], n))
    so = an.new_obj(st, absint.Obj("struct", fields=fields, name=adtp))
    selfty = fn.locals[1]["ty"]
    args = [absint.RefV(("obj", so, ()), bool(selfty.get("mut", False)))]
    for i in range(1, fn.argc):
        l = fn.locals[i + 1]
        nm = l.get("name") or "arg%d" % (i + 1)
        if l["ty"].get("s") == "usize":
            args.append(an.atom_val(nm, 0, 1 << 24))
        else:
            args.append(an.entry_value(st, l["ty"], nm))
    an.stack.append((fn.key, "entry r=%d" % r))
    an.run_fn(fn, args, st)
    an.stack.pop()
    return an, q


def run(rep, crate, cfg):
    R = "C07-R5"
    be = find_backend(crate)
    rep.floor(R, 1 if be else 0, 1, "sparse back-end with a bit-packed dense tail (Vec<u64> field, words per row = ceil(field / 64))", cfg)
    if not be:
        return
    adtp, pf, nf, helper = be
    proved = 0
    unmodelled = []
    for k, fn in sorted(crate.fns.items()):
        own = (fn.f.get("impl_self") or {}).get("adt") == adtp
        if not own or fn.argc < 1 or fn.f.get("test_build"):
            continue
        if any(seg.endswith("verify") or seg.startswith("debug_") for seg in k.split("::")[-1:]):
            continue
        acc = packed_accesses(fn, pf)
        if not acc:
            continue
        try:
            loops = fn.cfg.loops()
        except Exception:
            continue
        by_loop = {}
        outside = []
        for b, idx, blk in acc:
            inn = [h for h, body in loops.items() if b in body]
            if not inn:
                outside.append((b, idx, blk))
                continue
            h = min(inn, key=lambda h_: len(loops[h_]))
            by_loop.setdefault(h, []).append((b, idx, blk))
        if not by_loop:
            continue
        dom = fn.cfg
        for h, accs in sorted(by_loop.items()):
            body = loops[h]
            # peeled accesses: outside every loop, in a block that dominates the loop head, with a distinct source line
            peeled = [(b, idx, blk) for (b, idx, blk) in outside if dom.dominates(b, h)]
            P = len({(blk["term"].get("usp") or blk["term"]["sp"])["l0"] for _, _, blk in peeled})
            bad = {}
            shape = None
            ok_res = 0
            for r in range(64):
                try:
                    an, q = entry(crate, fn, adtp, pf, nf, r)
                except Exception as e:  # the function uses something the interpreter has no model for
                    shape = "not-modelled: %s" % (str(e)[:80],)
                    break
                N = None
                short = k.split("::")[-1]
                for a, info in an.loop_atom_info.items():
                    site = info.get("site", "")
                    if site == "while:bb%d" % h and info.get("hi") is not None:
                        d = info["hi"] - info["lo"]
                        fd = floor_div(d, info.get("step", 1))
                        if fd is None:
                            continue
                        # the indexed word counter must advance by one per iteration
                        okw = all(root_local(fn, blk, idx) is not None and plus_one_once(fn, body, root_local(fn, blk, idx))
                                  for _, idx, blk in accs)
                        if not okw:
                            bad.setdefault("the word index does not advance by exactly one per iteration of the column loop", []).append(r)
                        N = fd + 1
                        shape = "while-loop over columns, step %d" % info.get("step", 1)
                    elif site.startswith(short + ":bb") and info.get("hi") is not None and "step" not in info:
                        sb = int(site.rsplit("bb", 1)[1])
                        tgt = fn.blocks[sb]["term"].get("target")
                        hops = 0
                        while tgt is not None and tgt != h and hops < 3 and fn.blocks[tgt]["term"]["t"] == "goto":
                            tgt = fn.blocks[tgt]["term"].get("target")
                            hops += 1
                        if tgt == h and sb not in body:
                            N = info["hi"] - info["lo"] + 1
                            shape = "range loop over words"
                if N is None:
                    shape = shape or "not-modelled: no counter with affine bounds for the loop at bb%d" % h
                    if not shape.startswith("not-modelled"):
                        bad.setdefault("no affine trip count", []).append(r)
                    else:
                        break
                    continue
                want = Aff(1 if r > 0 else 0, {q: 1})
                got = N + P
                if got != want:
                    bad.setdefault("the loop visits %r word(s) of a row that has %r (nd = 64q + r)" % (got, want), []).append(r)
                else:
                    ok_res += 1
            if shape and shape.startswith("not-modelled"):
                unmodelled.append("%s bb%d (%s)" % (k.split("::")[-1], h, shape))
                continue
            proved += 1
            rep.check(not bad, R, k, "packed-row-trip-count", fn.loc(),
                      "%s: the loop over the bit-packed tail (%s, %d access(es) peeled in front) visits exactly ceil(nd/64) words per row "
                      "for all 64 residues of nd = 64q + r" % (k.split("::")[-1], shape, P),
                      {"problems": {m: rs[:8] for m, rs in list(bad.items())[:4]}} if bad else None, cfg)
    # floor: the row scan (the only loop whose bound is a column count) must be found and proved; row addition and the resize
    # copy may legitimately be written without a loop of their own (slice helpers, chunks), so they are proved when present
    rep.floor(R, proved, 1, "loops over the packed dense tail with a trip-count proof (row scan; row addition and resize copy when they are loops)", cfg)
    if unmodelled:
        rep.note("C07-R5: loops over the packed tail without an affine trip count (not decided): " + "; ".join(unmodelled))
