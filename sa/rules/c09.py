"""C09 — GF(256)-linearity / independence of byte columns and symbol size: the structural part.

R1 non-interference: the solver (and plan generation, which is the solver on dummy symbols) touches symbol
   data only through whole-symbol operations that return nothing; no branch, recorded operation or
   permutation can depend on symbol bytes or on the symbol size.
R2 position-wise application: plan replay maps every operation variant to the slab method with the
   variant's own operands; slab methods address symbol i at phys(i)*symbol_size, same stride for both
   halves of a pair; every symbol-level mutation ends in one of the kernels whose exact cover is C11-R2.
"""
from .. import mir, terms, loops
from ..terms import V, match, fmt
from . import dec

N = dec.N
P = lambda i: ("param", i)

ALLOWED_IN_SOLVER = {"len", "add_assign", "mulassign_scalar", "fma", "set_reorder", "with_zeros", "symbol_size"}
OPAQUE_OK = {"add_assign", "mulassign_scalar", "fma", "set_reorder"}   # return (): nothing flows back


def slab_adt(crate):
    for p in crate.adts:
        if p.endswith("SymbolSlab"):
            return p
    return None


def run(rep, crate, cfg):
    r1(rep, crate, cfg)
    r2(rep, crate, cfg)


def r1(rep, crate, cfg):
    R = "C09-R1"
    slab = slab_adt(crate)
    solver_fns = [f for k, f in crate.fns.items() if k.startswith("pi_solver::") or k.startswith("<pi_solver::")]
    rep.floor(R, len(solver_fns), 30, "functions of the solver module", cfg)
    uses = 0
    for f in solver_fns:
        tb = None
        for bi, t in f.calls():
            cal = t.get("resolved") or t.get("callee") or ""
            if "SymbolSlab::" not in cal:
                continue
            m = cal.split("::")[-1]
            uses += 1
            rep.check(m in ALLOWED_IN_SOLVER, R, f.key, "slab-api:" + m, mir.stmt_loc(t),
                      "the solver uses the symbol slab only through whole-symbol operations (%s)" % m, None, cfg)
            if m == "symbol_size":
                # its value may only be handed back to a slab constructor
                tb = tb or terms.TermBuilder(f)
                me = tb.call_term(bi, t)
                leaks = []

                def hide_ctor(x):
                    # a freshly constructed (all-zero) slab carries the size, not symbol bytes
                    return terms.map_term(x, lambda y: ("fresh-slab",) if (y[0] == "call" and isinstance(y[1], str) and
                                                                            y[1].endswith("SymbolSlab::with_zeros")) else y)
                for blk in f.blocks:
                    if blk["cleanup"] or blk["i"] not in f.cfg.reach:
                        continue
                    tt = blk["term"]
                    if tt["t"] == "switch":
                        d = tb.operand(blk["i"], None, tt["discr"])
                        if terms.find(me, d) is not None:
                            leaks.append("branch at " + mir.stmt_loc(tt))
                    elif tt["t"] == "call" and tt is not t:
                        c2 = tt.get("resolved") or tt.get("callee") or ""
                        for a in tt["args"]:
                            at = hide_ctor(tb.operand(blk["i"], "T", a))
                            if terms.find(me, at) is not None and not c2.endswith("SymbolSlab::with_zeros"):
                                leaks.append("argument of %s at %s" % (c2.split("::")[-1], mir.stmt_loc(tt)))
                    for i, s in enumerate(blk["stmts"]):
                        if s["s"] == "assign" and s["lhs"]["proj"] and any(e["p"] in ("deref", "field") for e in s["lhs"]["proj"]):
                            v = hide_ctor(tb.rvalue(blk["i"], i, s["rv"]))
                            if terms.find(me, v) is not None:
                                leaks.append("stored at " + mir.stmt_loc(s))
                rep.check(not leaks, R, f.key, "symbol-size-flow", mir.stmt_loc(t),
                          "the symbol size read by the solver only flows into the constructor of a replacement slab", {"flows": leaks}, cfg)
        # no direct access to slab fields / symbol bytes from the solver
        for blk in f.blocks:
            if blk["cleanup"]:
                continue
            from ..absint import places_of
            for node in blk["stmts"] + [blk["term"]]:
                for p in places_of(node):
                    for e in p["proj"]:
                        if e["p"] == "field" and e.get("adt") == slab:
                            rep.bad(R, f.key, "slab-field:" + str(e.get("name")), mir.stmt_loc(node),
                                    "the solver reads a field of the symbol slab directly", None, cfg)
    rep.floor(R, uses, 10, "uses of the slab inside the solver", cfg)
    # the allowed mutators return nothing
    for k, f in crate.fns.items():
        if f.f.get("impl_self", {}).get("adt") == slab and k.split("::")[-1] in OPAQUE_OK:
            rep.check(f.f["output"].get("s") == "()", R, k, "mutator-returns-unit", f.loc(),
                      "%s returns () (no symbol byte flows back to the caller)" % k.split("::")[-1], None, cfg)
    # `len` returns the count field only
    for k, f in crate.fns.items():
        if f.f.get("impl_self", {}).get("adt") == slab and k.split("::")[-1] == "len" and not f.f.get("impl_trait"):
            t = N(terms.TermBuilder(f).return_term())
            a = crate.adts[slab]["variants"][0]["fields"]
            m = match(("field", ("deref", P(1)), V("i")), t)
            rep.check(m is not None and a[m["i"]]["name"] == "count", R, k, "len-is-count", f.loc(),
                      "SymbolSlab::len returns the symbol count (independent of the bytes and of the symbol size)", None, cfg)


def r2(rep, crate, cfg):
    R = "C09-R2"
    slab = slab_adt(crate)
    po = crate.fns.get("operation_vector::perform_op")
    rep.floor(R, 1 if po else 0, 1, "operation_vector::perform_op", cfg)
    if po:
        def sink(ct, t):
            if ct[0] == "call" and isinstance(ct[1], str) and "SymbolSlab::" in ct[1]:
                return ct[1].split("::")[-1]
            return None
        ls = loops.LoopSummary(po, sink)
        OP = ("deref", P(1))
        want = {
            "add_assign": ("AddAssign", [0, 1], []),
            "mulassign_scalar": ("MulAssign", [0], [1]),
            "fma": ("FMA", [0, 1], [2]),
            "set_reorder": ("Reorder", [], []),
        }
        seen = set()
        for e in ls.events:
            w = want.get(e["sink"])
            if not w:
                rep.bad(R, po.key, "unexpected-call:" + e["sink"], po.loc(), "perform_op calls an unexpected slab method %s" % e["sink"], None, cfg)
                continue
            var, idxs, refs = w
            a = [N(x) for x in e["args"]]
            ok = a[0] == P(2)
            for j, fi in enumerate(idxs):
                ok = ok and a[1 + j] == ("field", ("variant", OP, var), fi)
            for j, fi in enumerate(refs):
                ok = ok and a[1 + len(idxs) + j] in (("ref", ("field", ("variant", OP, var), fi)), ("field", ("variant", OP, var), fi))
            if e["sink"] == "set_reorder":
                ok = ok and terms.find(("field", ("variant", OP, var), 0), a[1]) is not None
            # executed exactly for that variant
            dnf = dec.conds_of(ls, e["block"])
            vi = {"AddAssign": 0, "MulAssign": 1, "FMA": 2, "Reorder": 3}[var]
            disc = ("discr", OP)
            okv = all(any((c == N(("op", "Eq", ("const", vi), disc)) and v) for c, v in cj) or
                      any(c[0] == "switch-other" for c, v in cj) for cj in dnf)
            seen.add(var)
            rep.check(ok and okv, R, po.key, "replay:" + var, po.loc(),
                      "plan replay applies %s to the slab with the operation's own operands" % var,
                      {"args": [fmt(x)[:60] for x in a]}, cfg)
        rep.check(seen == {"AddAssign", "MulAssign", "FMA", "Reorder"}, R, po.key, "replay-exhaustive", po.loc(),
                  "every operation variant is replayed", {"seen": sorted(seen)}, cfg)
    # slab addressing
    a = crate.adts[slab]["variants"][0]["fields"]
    idx = {f["name"]: i for i, f in enumerate(a)}
    SELF = ("deref", P(1))
    SS = ("field", SELF, idx["symbol_size"])
    DATA = ("field", SELF, idx["data"])
    for nm in ("get", "get_mut"):
        f = crate.fns.get(slab + "::" + nm)
        if not f:
            continue
        # private helpers of the slab (e.g. a shared byte-range function) are expanded; physical_index stays symbolic
        helpers = lambda path: path.startswith(slab + "::") and not path.endswith("::physical_index") and \
            crate.fns[path].f.get("vis") not in ("pub", "public")
        rt = N(terms.inline(terms.TermBuilder(f).return_term(), crate, depth=2, only=helpers))
        PH = ("call", slab + "::physical_index", (P(1), P(2)))
        start = N(("op", "Mul", PH, SS))
        rng = ("agg", "adt:std::ops::Range", (start, N(("op", "Add", start, SS))))
        ok = terms.find(rng, rt) is not None and terms.find(DATA, rt) is not None
        rep.check(ok, R, f.key, "symbol-range", f.loc(), "%s(i) is data[phys(i)*symbol_size .. +symbol_size]" % nm, {"term": fmt(rt)[:160]}, cfg)
    f = crate.fns.get(slab + "::get_pair_mut")
    if f:
        def sink2(ct, t):
            if ct[0] == "call" and isinstance(ct[1], str) and ct[1].split("::")[-1] in ("from_raw_parts", "from_raw_parts_mut"):
                return ct[1].split("::")[-1]
            return None
        ls = loops.LoopSummary(f, sink2)
        ok = len(ls.events) == 2
        if ok:
            PHd = ("call", slab + "::physical_index", (P(1), P(2)))
            PHs = ("call", slab + "::physical_index", (P(1), P(3)))
            exp = {"from_raw_parts_mut": PHd, "from_raw_parts": PHs}
            for e in ls.events:
                a0, a1 = N(e["args"][0]), N(e["args"][1])
                off = terms.find(("call", V("add", lambda x: isinstance(x, str) and x.endswith("::add")), (V("p"), V("o"))), a0)
                ok = ok and off is not None and N(off[0]["o"]) == N(("op", "Mul", exp[e["sink"]], SS)) and a1 == SS
        rep.check(ok, R, f.key, "pair-ranges", f.loc(),
                  "get_pair_mut(dest, src) yields data[phys(dest)*ss .. +ss] mutably and data[phys(src)*ss .. +ss] shared, same ss for both", None, cfg)
    # every symbol-level mutator ends in one kernel call on exactly those ranges
    for nm, kernel, via in (("add_assign", "octets::add_assign", "get_pair_mut"), ("fma", "octets::fused_addassign_mul_scalar", "get_pair_mut"),
                            ("mulassign_scalar", "octets::mulassign_scalar", "get_mut")):
        f = crate.fns.get(slab + "::" + nm)
        if not f:
            continue
        tb = terms.TermBuilder(f)
        calls = [(bi, t) for bi, t in f.calls() if (t.get("resolved") or t.get("callee")) == kernel]
        ok = len(calls) == 1
        if ok:
            ct = N(tb.call_term(calls[0][0], calls[0][1]))
            src = ("call", slab + "::" + via, tuple(P(i) for i in range(1, 3 if via == "get_mut" else 4)))
            ok = terms.find(src, ct) is not None
        rep.check(ok, R, f.key, "kernel-on-symbol", f.loc(), "%s applies %s to the symbol range(s) of its operand indices" % (nm, kernel.split("::")[-1]), None, cfg)
        if len(calls) == 1:
            ls2 = loops.LoopSummary(f, lambda ct, t: None)
            dnf = dec.conds_of(ls2, calls[0][0])
            uncond = len(dnf) == 1 and not next(iter(dnf))
            rep.check(uncond, R, f.key, "kernel-unconditional", f.loc(),
                      "%s reaches its kernel on every (non-panicking) path: no data-dependent short cut" % nm,
                      {"conditions": [[(fmt(c)[:80], v) for c, v in cj] for cj in dnf]}, cfg)
    # dispatchers branch only on CPU features, operand lengths and (binary op) the scalar being one
    for k, f in sorted(crate.fns.items()):
        if not k.startswith("octets::") or f.f["vis"] != "pub" or f.f["kind"] != "Fn":
            continue
        ins = [i.get("s", "") for i in f.f["inputs"]]
        if not ins or ins[0] != "&mut [u8]":
            continue
        tb = terms.TermBuilder(f)
        odd = []
        for blk in f.blocks:
            if blk["cleanup"] or blk["i"] not in f.cfg.reach:
                continue
            bc = tb.branch_cond(blk["i"])
            if bc is None:
                continue
            c = N(bc[0])
            txt = repr(c)
            okc = c[0] == "const" or "__is_feature_detected" in txt or "::len" in txt or "is_empty" in txt or \
                ("PartialEq" in txt and "Octet" in txt) or "debug_assert" in txt
            # reads of the byte buffers themselves are not allowed in a branch condition
            if any(s_[0] == "index" or (s_[0] == "call" and isinstance(s_[1], str) and s_[1].endswith("get_unchecked")) for s_ in terms.subterms(c)):
                okc = False
            if not okc:
                odd.append(fmt(c)[:100])
        rep.check(not odd, R, k, "dispatch-conditions", f.loc(),
                  "%s branches only on CPU features, operand lengths/emptiness and the scalar's identity, never on buffer contents" % k.split("::")[-1],
                  {"other_conditions": odd}, cfg)
