"""C10 — octet arithmetic is GF(256) of RFC 6330 5.7.

R1: exhaustive check of the compiler-evaluated tables against the field
    definition (carry-less multiply mod 0x11D written in sa/tables.py).
R2: operator shape (see c10_ops in terms-based rules).
"""
from .. import mir, tables


def find_tables(crate):
    """anchor tables by role (type), not by name"""
    t = {}
    for c in crate.consts.values():
        s = c["ty"]["s"]
        if not c["path"].startswith("octet::"):
            continue
        if s == "[u8; 510]":
            t.setdefault("exp", c)
        elif s == "[u8; 256]":
            t.setdefault("log", c)
        elif s == "[[u8; 256]; 256]":
            t.setdefault("mul", c)
        elif s == "[[u8; 32]; 256]":
            t.setdefault("nib", []).append(c)
    return t


def run_tables(rep, crate, cfg):
    R = "C10-R1"
    t = find_tables(crate)
    need = ["exp", "log", "mul"]
    for n in need:
        rep.floor(R, 1 if n in t and t[n]["value"] is not None else 0, 1, "octet table '%s'" % n, cfg)
    if any(n not in t or t[n]["value"] is None for n in need):
        return
    EXP = t["exp"]["value"]
    LOG = t["log"]["value"]
    MUL = t["mul"]["value"]
    f = "octet.rs"
    # EXP[i] = 2^i
    v = 1
    bad = []
    for i in range(len(EXP)):
        if EXP[i] != v:
            bad.append(i)
        v = tables.gf_mul(v, 2)
    rep.check(not bad, R, t["exp"]["path"], "exp-is-power-of-alpha", mir.sp_loc(t["exp"]["sp"]),
              "OCT_EXP[i] = alpha^i (alpha = 2, modulo x^8+x^4+x^3+x^2+1) for all %d entries" % len(EXP),
              {"first_bad_indices": bad[:8]}, cfg)
    rep.check(len(EXP) >= 510, R, t["exp"]["path"], "exp-length", mir.sp_loc(t["exp"]["sp"]),
              "OCT_EXP has >= 510 entries (covers log sums up to 2*254 and 255+254)", None, cfg)
    # LOG is the inverse of EXP on 1..255
    bad = [x for x in range(1, 256) if not (0 <= LOG[x] < 255 and EXP[LOG[x]] == x)]
    rep.check(not bad, R, t["log"]["path"], "log-inverts-exp", mir.sp_loc(t["log"]["sp"]),
              "OCT_EXP[OCT_LOG[x]] = x and OCT_LOG[x] < 255 for x in 1..=255", {"bad": bad[:8]}, cfg)
    rep.check(LOG[0] == 0, R, t["log"]["path"], "log-zero-entry", mir.sp_loc(t["log"]["sp"]),
              "OCT_LOG[0] = 0 (placeholder entry, never a valid logarithm)", None, cfg)
    mx = max(LOG)
    rep.check(2 * mx < len(EXP) and 255 + mx < len(EXP), R, t["log"]["path"], "log-sum-in-exp",
              mir.sp_loc(t["log"]["sp"]),
              "2*max(OCT_LOG) and 255+max(OCT_LOG) index inside OCT_EXP (max=%d, len=%d)" % (mx, len(EXP)),
              None, cfg)
    # product via tables == polynomial product, all pairs (what Mul computes when both non-zero)
    bad = 0
    first = None
    for a in range(1, 256):
        la = LOG[a]
        for b in range(1, 256):
            if EXP[la + LOG[b]] != tables.gf_mul(a, b):
                bad += 1
                first = first or (a, b)
    rep.check(bad == 0, R, t["exp"]["path"], "exp-log-product", mir.sp_loc(t["exp"]["sp"]),
              "OCT_EXP[OCT_LOG[a]+OCT_LOG[b]] = a*b in GF(256) for all 255^2 non-zero pairs",
              {"mismatches": bad, "first": first}, cfg)
    # quotient: EXP[255 + log a - log b] * b == a
    bad = 0
    first = None
    for a in range(1, 256):
        for b in range(1, 256):
            q = EXP[255 + LOG[a] - LOG[b]]
            if tables.gf_mul(q, b) != a:
                bad += 1
                first = first or (a, b)
    rep.check(bad == 0, R, t["exp"]["path"], "exp-log-quotient", mir.sp_loc(t["exp"]["sp"]),
              "OCT_EXP[255+OCT_LOG[a]-OCT_LOG[b]] * b = a for all non-zero pairs (division, inverses)",
              {"mismatches": bad, "first": first}, cfg)
    # full product table, 65536 entries
    bad = 0
    first = None
    ok_shape = len(MUL) == 256 and all(len(r) == 256 for r in MUL)
    if ok_shape:
        for a in range(256):
            row = MUL[a]
            for b in range(256):
                if row[b] != tables.gf_mul(a, b):
                    bad += 1
                    first = first or (a, b)
    rep.check(ok_shape and bad == 0, R, t["mul"]["path"], "mul-table", mir.sp_loc(t["mul"]["sp"]),
              "OCTET_MUL[a][b] = a*b in GF(256) for all 65536 pairs", {"mismatches": bad, "first": first}, cfg)
    # nibble tables (std builds only): identify hi/low by content of row 1
    nib = t.get("nib", [])
    std = "feature=std" in crate.d["cfg"]
    if std:
        rep.floor(R, len(nib), 2, "nibble tables [[u8;32];256]", cfg)
    roles = {}
    for c in nib:
        v = c["value"]
        if v is None:
            continue
        # classify by which definition the table matches on row 1 entry 1 (1*1=1 low, 1*16=16 hi)
        role = "low" if v[1][1] == 1 else ("hi" if v[1][1] == 16 else "unknown")
        roles[role] = c
        bad = 0
        first = None
        for cst in range(256):
            for j in range(32):
                jj = j & 15
                want = tables.gf_mul(cst, jj if role == "low" else (jj << 4))
                if role == "unknown" or v[cst][j] != want:
                    bad += 1
                    first = first or (cst, j)
        rep.check(bad == 0, R, c["path"], "nibble-table-" + role, mir.sp_loc(c["sp"]),
                  "%s[c][j] = c*%s for j<16 and repeats at j+16 (needed by 32-byte shuffles), all 8192 entries"
                  % (c["path"], "j" if role == "low" else "(j<<4)"), {"mismatches": bad, "first": first}, cfg)
    if std:
        rep.check("low" in roles and "hi" in roles, R, "octet", "nibble-roles", "src/octet.rs",
                  "one low-nibble and one high-nibble table exist", {"roles": sorted(roles)}, cfg)
    rep.analysed.setdefault("tables", []).extend(sorted({c["path"] for c in [t["exp"], t["log"], t["mul"]] + nib}))
    return roles


# ---------------------------------------------------------------------------
# R2: operator shape

from .. import terms, loops
from ..terms import V, match, fmt
import itertools

P = lambda i: ("param", i)


def _norm(t):
    """get_unchecked(&T, i) == T[i]; strip casts; canonical operator order"""
    def f(x):
        if x[0] == "call" and isinstance(x[1], str) and x[1].split("::")[-1] in ("get_unchecked", "get_unchecked_mut") \
                and len(x[2]) == 2:
            base = x[2][0]
            while base[0] in ("ref", "deref", "deref*"):
                base = base[1]
            return ("ref", ("index", base, x[2][1]))
        if x[0] == "index" and x[1][0] in ("ref",):
            return ("index", x[1][1], x[2])
        # the field element's constant constructors (their bodies are checked by the identity-* obligations)
        if x[0] == "call" and x[1] == "octet::Octet::zero" and not x[2]:
            return ("agg", "adt:octet::Octet", (("const", 0),))
        if x[0] == "call" and x[1] == "octet::Octet::one" and not x[2]:
            return ("agg", "adt:octet::Octet", (("const", 1),))
        if x[0] == "call" and x[1] == "octet::Octet::new" and len(x[2]) == 1:
            return ("agg", "adt:octet::Octet", (x[2][0],))
        return x
    return terms.normalise(terms.strip_casts(terms.simplify(terms.map_term(t, f))))


def dnf_truth(dnf, atoms_env):
    """evaluate a DNF (list of sets of (cond, truth)) under an assignment atom->bool; unknown atoms -> None"""
    res = False
    for conj in dnf:
        ok = True
        for c, v in conj:
            if c not in atoms_env:
                return None
            if atoms_env[c] != v:
                ok = False
                break
        if ok:
            res = True
    return res


def canon_dnf(tb, blk):
    dnf = terms.path_dnf(tb, blk) or []
    out = []
    for conj in dnf:
        cc = set()
        for c, v in conj:
            c2, v2 = terms.canon_cond(_norm(c), v)
            c2 = _norm(c2)
            if any(s[0] == "overflow" for s in terms.subterms(c2)):
                continue
            if c2[0] == "op" and c2[1] == "Ne":
                c2, v2 = terms.normalise(("op", "Eq", c2[2], c2[3])), not v2
            cc.add((c2, v2))
        out.append(frozenset(cc))
    return out


def run_operators(rep, crate, cfg):
    R = "C10-R2"
    t = find_tables(crate)
    if "exp" not in t or "log" not in t:
        return
    EXP = ("item", t["exp"]["path"])
    LOG = ("item", t["log"]["path"])
    MUL = ("item", t["mul"]["path"]) if "mul" in t else None
    octet = None
    for p, a in crate.adts.items():
        if a["kind"] == "Struct" and p.startswith("octet::") and len(a["variants"][0]["fields"]) == 1 and \
                a["variants"][0]["fields"][0]["ty"]["s"] == "u8":
            octet = p
    rep.floor(R, 1 if octet else 0, 1, "field element struct {u8}", cfg)
    if not octet:
        return
    AGG = "adt:" + octet

    def val(p, byref):
        return ("field", ("deref", p), 0) if byref else ("field", p, 0)

    def product(a, b):
        alts = [_norm(("index", EXP, ("op", "Add", ("index", LOG, a), ("index", LOG, b))))]
        if MUL:
            alts.append(_norm(("index", ("index", MUL, a), b)))
            alts.append(_norm(("index", ("index", MUL, b), a)))
        return alts
    n_ops = 0
    for k, f in sorted(crate.fns.items()):
        tr = f.f.get("impl_trait")
        st = f.f.get("impl_self", {})
        self_s = st.get("s", "")
        if f.f.get("impl_derived") or octet.split("::")[-1] not in self_s or not self_s.replace("&", "").strip().endswith(octet):
            continue
        byref = self_s.startswith("&")
        tb = terms.TermBuilder(f)
        where = f.loc()
        name = k.split("::")[-1]
        if tr in ("std::ops::Add", "std::ops::Sub", "core::ops::Add", "core::ops::Sub") or (tr or "").startswith(("std::ops::Add<", "std::ops::Sub<", "core::ops::Add<", "core::ops::Sub<")):
            n_ops += 1
            rt = _norm(tb.return_term())
            want = ("agg", AGG, (_norm(("op", "BitXor", val(P(1), byref), val(P(2), byref))),))
            rep.check(rt == want, R, k, "xor", where, "%s is bitwise xor of the two octets" % name, {"found": fmt(rt)[:160]}, cfg)
        elif (tr or "").startswith(("std::ops::AddAssign", "core::ops::AddAssign")):
            n_ops += 1
            rhs_ref = f.f["inputs"][1].get("k") == "ref"
            ls = loops.LoopSummary(f, lambda ct, t: "store" if ct[0] == "store" else None)
            want = _norm(("op", "BitXor", val(P(1), True), val(P(2), rhs_ref)))
            ok = len(ls.events) == 1 and _norm(ls.events[0]["args"][0]) == val(P(1), True) and _norm(ls.events[0]["args"][1]) == want \
                and not canon_dnf(tb, ls.events[0]["block"])[0]
            if not ok and not ls.events and not rhs_ref:
                # by-value `+=` may delegate to the by-reference impl:  *self += &other
                cs = [(bi, t) for bi, t in f.calls()]
                if len(cs) == 1:
                    bi, t = cs[0]
                    callee = crate.fns.get(t.get("resolved") or t.get("callee") or "")
                    a = [tb.operand(bi, "T", x) for x in t["args"]]
                    while a and a[0][0] == "ref" and a[0][1][0] == "deref":
                        a[0] = a[0][1][1]
                    ok = callee is not None and "AddAssign<&" in (callee.f.get("impl_trait") or "") and \
                        callee.f.get("impl_self", {}).get("s", "").endswith(octet) and len(a) == 2 and a[0] == P(1) and a[1] == ("ref", P(2)) \
                        and not canon_dnf(tb, bi)[0]
            rep.check(ok, R, k, "xor-assign", where, "add_assign xors the operand into self unconditionally",
                      {"events": loops.render(ls)[:200]}, cfg)
        elif (tr or "").startswith(("std::ops::Mul", "core::ops::Mul", "std::ops::Div", "core::ops::Div")):
            n_ops += 1
            is_mul = "Mul" in tr
            if not byref:
                rt = tb.return_term()
                ok = rt[0] == "call" and rt[2] == (("ref", P(1)), ("ref", P(2))) and isinstance(rt[1], str) and \
                    rt[1] in crate.fns and crate.fns[rt[1]].f.get("impl_trait", "").startswith(tr.split("<")[0])
                if ok:
                    rep.ok(R, where, "%s by value delegates to the by-reference operator" % name, None, cfg)
                    continue
                # not a delegation: the by-value operator must have the operator's shape itself
            a, b = val(P(1), byref), val(P(2), byref)
            A0 = terms.normalise(("op", "Eq", ("const", 0), a))
            B0 = terms.normalise(("op", "Eq", ("const", 0), b))
            # assignments to the return place
            sites = []
            for blk in f.blocks:
                if blk["cleanup"] or blk["i"] not in f.cfg.reach:
                    continue
                for i, s in enumerate(blk["stmts"]):
                    if s["s"] == "assign" and s["lhs"]["l"] == 0 and not s["lhs"]["proj"]:
                        sites.append((blk["i"], _norm(tb.rvalue(blk["i"], i, s["rv"]))))
                tt = blk["term"]
                if tt["t"] == "call" and tt["dest"]["l"] == 0 and not tt["dest"]["proj"] and tt.get("target") is not None:
                    sites.append((tt["target"], _norm(tb.call_term(blk["i"], tt))))
            zero = ("agg", AGG, (("const", 0),))
            if is_mul:
                prods = [("agg", AGG, (p,)) for p in product(a, b)]
                okshape = len(sites) == 2 and any(s[1] == zero for s in sites) and any(s[1] in prods for s in sites)
                rep.check(okshape, R, k, "mul-shape", where, "a*b is 0 or OCT_EXP[OCT_LOG[a] + OCT_LOG[b]] (or the product table entry)",
                          {"found": [fmt(s[1])[:160] for s in sites]}, cfg)
                if okshape:
                    for blk, tm in sites:
                        dnf = canon_dnf(tb, blk)
                        good = True
                        for va, vb in itertools.product([False, True], repeat=2):
                            got = dnf_truth(dnf, {A0: va, B0: vb})
                            want = (va or vb) if tm == zero else (not va and not vb)
                            if got is None or got != want:
                                good = False
                        rep.check(good, R, k, "mul-guard-" + ("zero" if tm == zero else "product"), where,
                                  "the zero result is returned exactly when a == 0 or b == 0, the table product otherwise",
                                  {"dnf": [[(fmt(c), v) for c, v in cj] for cj in dnf]}, cfg)
            else:
                q = ("agg", AGG, (_norm(("index", EXP, ("op", "Sub", ("op", "Add", ("const", 255), ("index", LOG, a)), ("index", LOG, b)))),))
                rt = _norm(tb.return_term())
                want = ("ite", A0, zero, q)
                rep.check(rt == want, R, k, "div-shape", where, "a/b is 0 if a == 0 else OCT_EXP[255 + OCT_LOG[a] - OCT_LOG[b]]",
                          {"found": fmt(rt)[:200]}, cfg)
                # refusal: division by zero panics
                exits = f.cfg.exits()
                dnf = canon_dnf(tb, exits[0]) if exits else []
                guarded = bool(dnf) and all((B0, False) in cj for cj in dnf)
                rep.check(guarded, R, k, "div-nonzero-guard", where, "division returns only under b != 0 (asserted)", None, cfg)
    rep.floor(R, n_ops, 9, "operator impls on the field element (Add x2, AddAssign x2, Sub, Mul x2, Div x2)", cfg)
    # inherent functions
    fns = {k.split("::")[-1]: f for k, f in crate.fns.items() if f.f.get("impl_self", {}).get("adt") == octet and not f.f.get("impl_trait")}
    simple = {"new": ("agg", AGG, (P(1),)), "zero": ("agg", AGG, (("const", 0),)), "one": ("agg", AGG, (("const", 1),)),
              "byte": ("field", ("deref", P(1)), 0)}
    for nm, want in simple.items():
        f = fns.get(nm)
        if f is None:
            continue
        rt = _norm(terms.TermBuilder(f).return_term())
        rep.check(rt == want, R, f.key, "identity-" + nm, f.loc(), "Octet::%s is the identity embedding / constant" % nm, {"found": fmt(rt)[:100]}, cfg)
    f = fns.get("alpha")
    if f is not None:
        tb = terms.TermBuilder(f)
        rt = _norm(tb.return_term())
        exits = f.cfg.exits()
        conds = [terms.canon_cond(_norm(c), v) for c, v in tb.path_conditions(exits[0])] if exits else []
        guard = (terms.normalise(("op", "Lt", P(1), ("const", 256))), True) in conds
        rep.check(rt == ("agg", AGG, (("index", EXP, P(1)),)) and guard, R, f.key, "alpha", f.loc(),
                  "alpha(i) = OCT_EXP[i] under i < 256", {"found": fmt(rt)[:100], "conds": [(fmt(c), v) for c, v in conds]}, cfg)
    f = fns.get("fma")
    rep.floor(R, sum(1 for n in ("new", "zero", "one", "byte", "alpha", "fma") if n in fns), 6, "inherent functions of the field element", cfg)
    if f is not None:
        tb = terms.TermBuilder(f)
        ls = loops.LoopSummary(f, lambda ct, t: "store" if ct[0] == "store" else None)
        b, c_ = val(P(2), True), val(P(3), True)
        me = val(P(1), True)
        wants = [_norm(("op", "BitXor", me, p)) for p in product(b, c_)]
        ok = len(ls.events) == 1 and _norm(ls.events[0]["args"][0]) == me and _norm(ls.events[0]["args"][1]) in wants
        rep.check(ok, R, f.key, "fma-shape", f.loc(), "fma: self ^= OCT_EXP[OCT_LOG[b] + OCT_LOG[c]]", {"events": loops.render(ls)[:240]}, cfg)
        if ok:
            dnf = canon_dnf(tb, ls.events[0]["block"])
            B0 = terms.normalise(("op", "Eq", ("const", 0), b))
            C0 = terms.normalise(("op", "Eq", ("const", 0), c_))
            good = True
            for vb, vc in itertools.product([False, True], repeat=2):
                got = dnf_truth(dnf, {B0: vb, C0: vc})
                if got is None or got != (not vb and not vc):
                    good = False
            rep.check(good, R, f.key, "fma-guard", f.loc(), "fma adds the product exactly when both factors are non-zero (else adds 0)",
                      {"dnf": [[(fmt(c), v) for c, v in cj] for cj in dnf]}, cfg)
