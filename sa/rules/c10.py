"""C10 — octet arithmetic is GF(256) of RFC 6330 5.7.

R1: exhaustive check of the compiler-evaluated tables against the field
    definition (carry-less multiply mod 0x11D written in sa/tables.py).
R2: operator shape (see c10_ops in terms-based rules).
"""
from .. import mir, tables


def find_tables(crate):
    """anchor tables by role (type), not by name"""
    t = {}
    for c in crate.consts.values():
        s = c["ty"]["s"]
        if not c["path"].startswith("octet::"):
            continue
        if s == "[u8; 510]":
            t.setdefault("exp", c)
        elif s == "[u8; 256]":
            t.setdefault("log", c)
        elif s == "[[u8; 256]; 256]":
            t.setdefault("mul", c)
        elif s == "[[u8; 32]; 256]":
            t.setdefault("nib", []).append(c)
    return t


def run_tables(rep, crate, cfg):
    R = "C10-R1"
    t = find_tables(crate)
    need = ["exp", "log", "mul"]
    for n in need:
        rep.floor(R, 1 if n in t and t[n]["value"] is not None else 0, 1, "octet table '%s'" % n, cfg)
    if any(n not in t or t[n]["value"] is None for n in need):
        return
    EXP = t["exp"]["value"]
    LOG = t["log"]["value"]
    MUL = t["mul"]["value"]
    f = "octet.rs"
    # EXP[i] = 2^i
    v = 1
    bad = []
    for i in range(len(EXP)):
        if EXP[i] != v:
            bad.append(i)
        v = tables.gf_mul(v, 2)
    rep.check(not bad, R, t["exp"]["path"], "exp-is-power-of-alpha", mir.sp_loc(t["exp"]["sp"]),
              "OCT_EXP[i] = alpha^i (alpha = 2, modulo x^8+x^4+x^3+x^2+1) for all %d entries" % len(EXP),
              {"first_bad_indices": bad[:8]}, cfg)
    rep.check(len(EXP) >= 510, R, t["exp"]["path"], "exp-length", mir.sp_loc(t["exp"]["sp"]),
              "OCT_EXP has >= 510 entries (covers log sums up to 2*254 and 255+254)", None, cfg)
    # LOG is the inverse of EXP on 1..255
    bad = [x for x in range(1, 256) if not (0 <= LOG[x] < 255 and EXP[LOG[x]] == x)]
    rep.check(not bad, R, t["log"]["path"], "log-inverts-exp", mir.sp_loc(t["log"]["sp"]),
              "OCT_EXP[OCT_LOG[x]] = x and OCT_LOG[x] < 255 for x in 1..=255", {"bad": bad[:8]}, cfg)
    rep.check(LOG[0] == 0, R, t["log"]["path"], "log-zero-entry", mir.sp_loc(t["log"]["sp"]),
              "OCT_LOG[0] = 0 (placeholder entry, never a valid logarithm)", None, cfg)
    mx = max(LOG)
    rep.check(2 * mx < len(EXP) and 255 + mx < len(EXP), R, t["log"]["path"], "log-sum-in-exp",
              mir.sp_loc(t["log"]["sp"]),
              "2*max(OCT_LOG) and 255+max(OCT_LOG) index inside OCT_EXP (max=%d, len=%d)" % (mx, len(EXP)),
              None, cfg)
    # product via tables == polynomial product, all pairs (what Mul computes when both non-zero)
    bad = 0
    first = None
    for a in range(1, 256):
        la = LOG[a]
        for b in range(1, 256):
            if EXP[la + LOG[b]] != tables.gf_mul(a, b):
                bad += 1
                first = first or (a, b)
    rep.check(bad == 0, R, t["exp"]["path"], "exp-log-product", mir.sp_loc(t["exp"]["sp"]),
              "OCT_EXP[OCT_LOG[a]+OCT_LOG[b]] = a*b in GF(256) for all 255^2 non-zero pairs",
              {"mismatches": bad, "first": first}, cfg)
    # quotient: EXP[255 + log a - log b] * b == a
    bad = 0
    first = None
    for a in range(1, 256):
        for b in range(1, 256):
            q = EXP[255 + LOG[a] - LOG[b]]
            if tables.gf_mul(q, b) != a:
                bad += 1
                first = first or (a, b)
    rep.check(bad == 0, R, t["exp"]["path"], "exp-log-quotient", mir.sp_loc(t["exp"]["sp"]),
              "OCT_EXP[255+OCT_LOG[a]-OCT_LOG[b]] * b = a for all non-zero pairs (division, inverses)",
              {"mismatches": bad, "first": first}, cfg)
    # full product table, 65536 entries
    bad = 0
    first = None
    ok_shape = len(MUL) == 256 and all(len(r) == 256 for r in MUL)
    if ok_shape:
        for a in range(256):
            row = MUL[a]
            for b in range(256):
                if row[b] != tables.gf_mul(a, b):
                    bad += 1
                    first = first or (a, b)
    rep.check(ok_shape and bad == 0, R, t["mul"]["path"], "mul-table", mir.sp_loc(t["mul"]["sp"]),
              "OCTET_MUL[a][b] = a*b in GF(256) for all 65536 pairs", {"mismatches": bad, "first": first}, cfg)
    # nibble tables (std builds only): identify hi/low by content of row 1
    nib = t.get("nib", [])
    std = "feature=std" in crate.d["cfg"]
    if std:
        rep.floor(R, len(nib), 2, "nibble tables [[u8;32];256]", cfg)
    roles = {}
    for c in nib:
        v = c["value"]
        if v is None:
            continue
        # classify by which definition the table matches on row 1 entry 1 (1*1=1 low, 1*16=16 hi)
        role = "low" if v[1][1] == 1 else ("hi" if v[1][1] == 16 else "unknown")
        roles[role] = c
        bad = 0
        first = None
        for cst in range(256):
            for j in range(32):
                jj = j & 15
                want = tables.gf_mul(cst, jj if role == "low" else (jj << 4))
                if role == "unknown" or v[cst][j] != want:
                    bad += 1
                    first = first or (cst, j)
        rep.check(bad == 0, R, c["path"], "nibble-table-" + role, mir.sp_loc(c["sp"]),
                  "%s[c][j] = c*%s for j<16 and repeats at j+16 (needed by 32-byte shuffles), all 8192 entries"
                  % (c["path"], "j" if role == "low" else "(j<<4)"), {"mismatches": bad, "first": first}, cfg)
    if std:
        rep.check("low" in roles and "hi" in roles, R, "octet", "nibble-roles", "src/octet.rs",
                  "one low-nibble and one high-nibble table exist", {"roles": sorted(roles)}, cfg)
    rep.analysed.setdefault("tables", []).extend(sorted({c["path"] for c in [t["exp"], t["log"], t["mul"]] + nib}))
    return roles
