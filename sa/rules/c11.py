"""C11 — bulk kernels equal element-wise field operations on every code path.

R1 feature gating (exact, interprocedural): every call whose callee needs CPU features happens where
   those features are available (baseline, the caller's own #[target_feature]s, or a dominating
   successful runtime detection), closed under rustc's own implication table.
R2 exact cover: the bytes written by each kernel tile [0, len) exactly once, for all 64 residues of
   len mod 64 (from the same abstract-interpretation runs as C12), strides equal access widths, and the
   source operand is read at the same positions.
R4 dispatch completeness: every dispatcher falls through to a portable kernel and hands its own
   operands to whichever kernel it selects.
"""
import os
import re
import subprocess

from .. import mir, terms, absint
from ..aff import Aff, IntV, norm
from . import c12

FALLBACK_IMPLIED = {
    "sse2": ["sse"], "sse3": ["sse2"], "ssse3": ["sse3"], "sse4.1": ["ssse3"], "sse4.2": ["sse4.1"], "avx": ["sse4.2"],
    "avx2": ["avx"], "fma": ["avx"], "f16c": ["avx"], "avx512f": ["avx2", "fma", "f16c"], "avx512bw": ["avx512f"],
    "avx512vl": ["avx512f"], "avx512dq": ["avx512f"], "avx512cd": ["avx512f"], "bmi1": [], "bmi2": [], "popcnt": [], "lzcnt": [],
}
_implied = None


def implied_table():
    """rustc's x86 implied-feature table, read from the compiler source shipped in the sandbox"""
    global _implied
    if _implied is not None:
        return _implied
    tab = {}
    try:
        sysroot = subprocess.check_output(["rustc", "+nightly", "--print", "sysroot"], text=True).strip()
        p = os.path.join(sysroot, "lib/rustlib/rustc-src/rust/compiler/rustc_target/src/target_features.rs")
        src = open(p).read()
        a = src.index("static X86_FEATURES")
        b = src.index("];", a)
        blk = src[a:b]
        for m in re.finditer(r'\(\s*"([\w.\-]+)"\s*,\s*[\w:]+(?:\([^)]*\))?\s*,\s*&\[([^\]]*)\]\s*,?\s*\)', blk, re.S):
            tab[m.group(1)] = re.findall(r'"([\w.\-]+)"', m.group(2))
    except Exception:
        tab = {}
    if "avx512bw" not in tab or "avx2" not in tab:
        tab = dict(FALLBACK_IMPLIED)
        src_kind = "fallback table in the checker"
    else:
        src_kind = "rustc_target/src/target_features.rs"
    _implied = (tab, src_kind)
    return _implied


def closure(feats):
    tab, _ = implied_table()
    out = set(feats)
    st = list(feats)
    while st:
        f = st.pop()
        for g in tab.get(f, []):
            if g not in out:
                out.add(g)
                st.append(g)
    return out


DETECT = "std_detect::detect::arch::x86::__is_feature_detected::"


def detected_at(tb, blk):
    """features whose runtime detection succeeded on every path that reaches blk"""
    dnf = terms.path_dnf(tb, blk)
    if not dnf:
        return set()
    out = None
    for conj in dnf:
        s = set()
        for c, v in conj:
            if v and c[0] == "call" and isinstance(c[1], str) and c[1].startswith(DETECT):
                s.add(c[1][len(DETECT):])
        out = s if out is None else (out & s)
    return out or set()


def run_gating(rep, crate, cfg):
    R = "C11-R1"
    base = set(crate.d["base_target_features"])
    n = 0
    nk = 0
    for k, f in sorted(crate.fns.items()):
        tb = None
        own = set(f.f["target_features"])
        for bi, t in f.calls():
            req = set(t.get("callee_tf") or [])
            if not req:
                continue
            n += 1
            callee = t.get("resolved") or t.get("callee")
            tb = tb or terms.TermBuilder(f)
            det = detected_at(tb, bi)
            avail = closure(base | own | det)
            missing = sorted(req - avail)
            local = bool(t.get("resolved_local", t.get("callee_local")))
            if local:
                nk += 1
            what = "%s -> %s: required %s available from %s" % (
                k.split("::")[-1], callee.split("::")[-1], sorted(req - base),
                ("own #[target_feature]" if own else "") + (" detection of " + ",".join(sorted(det)) if det else "") or "baseline")
            if local or missing:
                rep.check(not missing, R, k, "tf:%s" % callee.split("::")[-1], mir.stmt_loc(t), what,
                          {"missing": missing, "detected": sorted(det), "own": sorted(own)}, cfg)
            else:
                rep.ok(R, mir.stmt_loc(t), what, None, cfg)
    std = "feature=std" in crate.d["cfg"]
    if std:
        rep.floor(R, nk, 11, "calls of #[target_feature] kernels from dispatchers", cfg)
        rep.floor(R, n, 90, "calls of functions that require CPU features (kernels and core::arch intrinsics)", cfg)
    rep.analysed["implied_feature_table"] = implied_table()[1]
    return n


def run_dispatch(rep, crate, cfg):
    R = "C11-R4"
    disp = [f for f in c12.unsafe_fns(crate) if c12.is_dispatcher(crate, f)]
    std = "feature=std" in crate.d["cfg"]
    if std:
        rep.floor(R, len(disp), 4, "dispatchers", cfg)
    for f in disp:
        tb = terms.TermBuilder(f)
        # operands passed unchanged
        for bi, t in f.calls():
            if not (t.get("callee_unsafe") and t.get("resolved_local", t.get("callee_local"))):
                continue
            args = [tb.operand(bi, "T", a) for a in t["args"]]

            def unre(x):
                while x[0] in ("ref", "deref", "deref*") and x[1][0] in ("ref", "deref", "deref*", "param"):
                    x = x[1]
                return x
            ok = [unre(a) for a in args] == [("param", i + 1) for i in range(len(args))] and len(args) == f.argc
            rep.check(ok, R, f.key, "operands->" + (t.get("callee") or "?").split("::")[-1], mir.stmt_loc(t),
                      "%s hands its own operands, in order, to %s" % (f.key.split("::")[-1], (t.get("callee") or "?").split("::")[-1]),
                      {"args": [terms.fmt(a)[:60] for a in args]}, cfg)
        # all-detections-false path reaches a portable implementation
        cfgg = f.cfg
        seen = set()
        st = [0]
        portable = []
        while st:
            b = st.pop()
            if b in seen:
                continue
            seen.add(b)
            t = f.blocks[b]["term"]
            if t["t"] == "switch":
                c = tb.operand(b, None, t["discr"])
                if c[0] == "call" and isinstance(c[1], str) and c[1].startswith(DETECT):
                    fl = [tgt for v, tgt in t["arms"] if v == 0]
                    st.extend(fl)
                    continue
            if t["t"] == "call":
                callee = t.get("resolved") or t.get("callee") or ""
                if callee in crate.fns and not crate.fns[callee].f["target_features"] and not t.get("callee_unsafe"):
                    g = crate.fns[callee]
                    if g.key != f.key and (g.key.split("::")[0] == f.key.split("::")[0]):
                        portable.append(callee)
            st.extend(cfgg.succ[b])
        rep.check(bool(portable), R, f.key, "portable-fallback", f.loc(),
                  "%s reaches a portable implementation when no CPU feature is detected" % f.key.split("::")[-1],
                  {"portable_calls": portable[:4]}, cfg)


# ---------------------------------------------------------------------------
# R2 exact cover

def seg_of(an, entry):
    """(start Aff, end Aff, problem) of the bytes touched by one access site over its loop"""
    off = entry["off"]
    ex = off.exact() if off.slo is not None else None
    w = entry["width"]
    if ex is None:
        return None, None, "offset is not an exact affine form: %r" % (off,)
    loop_atoms = [(a, k) for a, k in ex.t if a in an.loop_atom_info]
    if not loop_atoms:
        return ex, ex + w, None
    if len(loop_atoms) > 1:
        return None, None, "offset depends on more than one loop variable"
    a, k = loop_atoms[0]
    if k != w:
        return None, None, "stride %d differs from access width %d" % (k, w)
    info = an.loop_atom_info[a]
    if info.get("step", 1) != 1:
        return None, None, "the loop counter advances by %d per iteration (elements are skipped)" % info["step"]
    if info.get("hi") is None:
        return None, None, "no upper bound known for the loop counter"
    rest = ex - Aff(0, {a: k})
    return rest + info["lo"].scale(k), rest + info["hi"].scale(k) + w, None


def contiguous(an, q, segs):
    """union of the segments has no gap (reads may repeat): checked at two values of q, all forms affine in q"""
    def ev(a, qv):
        return a.c + sum(k * (qv if at == q else 0) for at, k in a.t)
    probs = []
    for qv in (7, 11):
        iv = sorted((ev(s[0], qv), ev(s[1], qv)) for s in segs if ev(s[1], qv) > ev(s[0], qv))
        end = None
        for a, b in iv:
            if end is not None and a > end:
                probs.append("gap between byte %d and %d of the packed source (q=%d)" % (end, a, qv))
            end = b if end is None else max(end, b)
    return probs


def tile(an, q, segs, total):
    """do the segments (start, end) tile [first, total) without gap/overlap?  exact Aff equality;
    empty segments (end == start, or loops that do not run) are dropped."""
    def ev(a, qv):
        return a.c + sum(k * (qv if at == q else 0) for at, k in a.t)
    segs = [s for s in segs if not (s[0] == s[1])]
    segs = sorted(set(segs), key=lambda s: (ev(s[0], 7), ev(s[0], 11)))
    probs = []
    for x, y in zip(segs, segs[1:]):
        if x[1] != y[0]:
            probs.append("segment ending at %r is followed by one starting at %r" % (x[1], y[0]))
    if segs and segs[-1][1] != total:
        probs.append("last segment ends at %r, object ends at %r" % (segs[-1][1], total))
    return segs, probs


def run_cover(rep, crate, cfg, all_logs):
    R = "C11-R2"
    nk = 0
    aligned = [0]
    for fnk, (kind, logs) in sorted(all_logs.items()):
        short = fnk.split("::")[-1]
        nk += 1
        bad = {}
        shapes = {}
        for r, L in sorted(logs.items()):
            an = L["an"]
            q = L["q"]
            ln = L["len"].exact()
            objs = L["objs"]
            fn = crate.fns[fnk]
            dest_name = fn.locals[1].get("name") or "arg1"
            dest = objs.get(dest_name)
            segs_w = []
            segs_r_by_obj = {}
            for e in L["log"]:
                if e["fn"] != fnk and e.get("site") != "elem-ref":
                    continue
                s0, s1, prob = seg_of(an, e)
                if prob:
                    if e["obj"] == dest and e["write"]:
                        bad.setdefault("write@%s: %s" % (e["site"], prob), []).append(r)
                    continue
                if e["obj"] == dest and e["write"]:
                    segs_w.append((s0, s1))
                elif e["obj"] != dest:
                    segs_r_by_obj.setdefault(e["obj"], []).append((s0, s1))
            segs, probs = tile(an, q, segs_w, ln)
            if not segs and ln != Aff(0):
                probs.append("no write to the destination recorded")
            if segs and segs[0][0] != Aff(0):
                probs.append("first written byte is %r, not 0" % (segs[0][0],))
            for p in probs:
                bad.setdefault("dest: " + p, []).append(r)
            shapes[r] = len(segs)
            # second operand of the slice kernels: read at exactly the written positions
            if kind == "slice-kernel":
                for oid, rs in segs_r_by_obj.items():
                    o = L["state"].heap.get(oid) or an_obj(an, L, oid)
                    nm = [k for k, v in objs.items() if v == oid]
                    if not nm:
                        continue
                    rsegs, rprobs = tile(an, q, rs, ln)
                    if rsegs and rsegs[0][0] != Aff(0):
                        rprobs.append("first byte read is %r, not 0" % (rsegs[0][0],))
                    if rsegs != segs:
                        rprobs.append("source is read in segments that differ from the written ones")
                    for p in rprobs:
                        bad.setdefault("source %s: %s" % (nm[0], p), []).append(r)
            else:
                for oid, rs in segs_r_by_obj.items():
                    nm = [k for k, v in objs.items() if v == oid]
                    if not nm:
                        continue   # derived views are checked through their own object below
                for oid, rs in segs_r_by_obj.items():
                    for p in contiguous(an, q, rs):
                        bad.setdefault("packed source: " + p, []).append(r)
                # bit alignment of the packed operand: destination byte p corresponds to bit (padding + p) of the packed
                # words, padding = (64 - len % 64) % 64.  For a loop that writes kw bytes at D0 + kw*a and reads the packed
                # source at S0 + kr*a (same loop variable a):  kw = 8*kr  and  8*S0 - D0 = padding.
                padding = (64 - r) % 64
                packed = {v for k_, v in objs.items() if k_.endswith(".elements")}
                wr = [e for e in L["log"] if e["fn"] == fnk and e["obj"] == dest and e["write"]]
                rd = [e for e in L["log"] if e["fn"] == fnk and e["obj"] in packed and not e["write"]]
                for ew in wr:
                    exw = ew["off"].exact() if ew["off"].slo is not None else None
                    if exw is None:
                        continue
                    la_w = [(a, k_) for a, k_ in exw.t if a in an.loop_atom_info]
                    if len(la_w) != 1:
                        continue
                    for er in rd:
                        exr = er["off"].exact() if er["off"].slo is not None else None
                        if exr is None:
                            continue
                        la_r = [(a, k_) for a, k_ in exr.t if a in an.loop_atom_info]
                        if len(la_r) != 1 or la_r[0][0] != la_w[0][0]:
                            continue
                        aligned[0] += 1
                        kw, kr = la_w[0][1], la_r[0][1]
                        diff = exr.scale(8) - exw
                        if kw != 8 * kr or not diff.is_const() or diff.c != padding:
                            bad.setdefault("packed source: the word read in the loop at %s is not the one holding the bits of the bytes "
                                           "written there (8*source offset - destination offset = %r, padding bits = %d)" % (er["site"], diff, padding), []).append(r)
        rep.check(not bad, R, fnk, "exact-cover", crate.fns[fnk].loc(),
                  "%s: for every residue r of len = 64q + r the vector loop, the word loop and the scalar tail write each byte of "
                  "[0, len) exactly once (stride = access width, segments adjacent)%s" % (
                      short, "; the second operand is read at the same positions" if kind == "slice-kernel" else ""),
                  {"problems": {k: v[:6] for k, v in list(bad.items())[:5]}}, cfg)
    std = "feature=std" in crate.d["cfg"]
    rep.floor(R, nk, 14 if std else 3, "kernels with a coverage proof", cfg)
    if std and "target_arch=x86_64" in " ".join(crate.d["cfg"]).replace('"', ""):
        rep.floor(R, aligned[0], 120, "packed-word / destination alignment pairs checked (binary kernels, all residues)", cfg)


def an_obj(an, L, oid):
    return None
