"""C11-R3 — per-operation data-flow templates of the bulk kernels.

The value stored by every loop of every kernel is reconstructed as a term, the x86 intrinsics are rewritten
into a small lane algebra (normalised over the vector width, so the AVX-512, AVX2 and SSSE3 kernels are held
to ONE template per operation), and compared with the template of the operation:

  add:  d' = d ^ s
  mul:  d' = PSHUFB(HI[c], (d >>64 4) & 0x0F) ^ PSHUFB(LOW[c], d & 0x0F)        (tails: MUL[c][d])
  fma:  d' = d ^ mul(s)                                                         (tails: d ^ MUL[c][s])
  bin:  d' = d ^ (c masked by the packed bits)

Semantics of the handful of instructions is encoded in the templates (PSHUFB with indices < 16 and a table
repeated in every 128-bit lane is a 16-entry byte lookup; a 64-bit logical right shift by 4 followed by & 0x0F
is the high nibble of each byte, as is & 0xF0 followed by the shift).  C10-R1 proves the tables, C11-R2 the cover.
"""
import re

from .. import mir, terms, loops
from ..terms import V, match, fmt
from . import c10, c12

P = lambda i: ("param", i)
W = {"_mm_": 16, "_mm256_": 32, "_mm512_": 64}


def intrinsic(name):
    """(vector width in bytes, generic op name, const generic args) of an x86 intrinsic call path"""
    last = name.split("::")
    base = None
    for seg in last:
        if seg.startswith("_mm"):
            base = seg
    if base is None:
        return None
    consts = re.findall(r"::<([^>]*)>", name)
    cg = tuple(int(x) for x in re.findall(r"-?\d+", consts[-1])) if consts else ()
    for pre, w in W.items():
        if base.startswith(pre) and (pre != "_mm_" or not base.startswith("_mm256") and not base.startswith("_mm512")):
            op = base[len(pre):]
            op = re.sub(r"_si(128|256|512)$", "", op)
            return w, op, cg
    return None


def buf_at(p):
    r = _buf_at(p)
    if r is None:
        return None
    return ("at", r[1], terms.normalise(r[2]))


def _buf_at(p):
    """pointer term -> ("at", buffer param, position term) for pointers into a slice parameter"""
    def strip(x):
        while x[0] == "ptrcast":
            x = x[2]
        return x
    p = strip(p)
    if p[0] == "ite":
        a, b = _buf_at(p[2]), _buf_at(p[3])
        if a is not None and b is not None and a[1] == b[1]:
            return ("at", a[1], ("ite", p[1], a[2], b[2]))
        return None
    if p[0] == "phi":
        subs = [_buf_at(x) for x in p[1]]
        if all(x is not None for x in subs) and len({repr(x[1]) for x in subs}) == 1:
            return ("at", subs[0][1], ("phi", tuple(sorted((x[2] for x in subs), key=repr))))
        return None
    if p[0] == "call" and isinstance(p[1], str) and p[1].endswith("::add") and len(p[2]) == 2:
        base, off = strip(p[2][0]), p[2][1]
        inner = _buf_at(base)
        if inner is not None and inner[2] == ("const", 0):
            return ("at", inner[1], off)
        if inner is not None:
            return ("at", inner[1], ("op", "Add", inner[2], off))
    if p[0] == "call" and isinstance(p[1], str) and p[1].split("::")[-1] in ("as_ptr", "as_mut_ptr"):
        b = p[2][0]
        while b[0] in ("ref", "deref", "deref*"):
            b = b[1]
        return ("at", b, ("const", 0))
    return None


def lane_algebra(t, scalar_byte):
    """rewrite intrinsic calls into width-independent operations"""
    def f(x):
        if x[0] == "cast" and x[1] in ("i8", "i32", "i64"):
            return x[2]
        if x[0] != "call" or not isinstance(x[1], str):
            return x
        info = intrinsic(x[1]) if "std::arch::" in x[1] else None
        if info is None:
            return x
        w, op, cg = info
        a = x[2]
        if op in ("loadu", "lddqu", "load"):
            at = buf_at(a[0])
            if at is not None:
                # table row: pointer to TABLE[scalar]
                b = at[1]
                m = match(("index", ("item", V("tab")), V("ix")), b)
                if m is not None and at[2] == ("const", 0):
                    return ("row", m["tab"], m["ix"], w)
                return ("vload", at[1], at[2])
            return ("vload?", a[0])
        if op in ("xor",):
            return terms.normalise(("op", "BitXor", a[0], a[1]))
        if op in ("and",):
            return terms.normalise(("op", "BitAnd", a[0], a[1]))
        if op == "andnot":
            return ("andnot", a[0], a[1])
        if op == "shuffle_epi8":
            return ("pshufb", a[0], a[1])
        if op == "srli_epi64":
            return ("srl64", cg[0] if cg else None, a[0])
        if op == "set1_epi8":
            return ("splat8", a[0])
        if op == "set1_epi32":
            return ("splat32", a[0])
        if op == "set1_epi64x":
            return ("splat64", a[0])
        if op == "set_epi64x":
            return ("set64", tuple(a))
        if op == "setzero":
            return ("zero",)
        if op == "cmpeq_epi8":
            return ("cmpeq8",) + tuple(sorted(a, key=repr))
        if op == "broadcast_i32x4":
            return ("bcast128", a[0])
        if op == "maskz_mov_epi8":
            return ("maskz8", a[0], a[1])
        return ("intrinsic", op, cg, tuple(a))
    return terms.normalise(terms.map_term(terms.simplify(t), f))


def nib_tables(crate):
    t = c10.find_tables(crate)
    roles = {}
    for c in t.get("nib", []):
        v = c["value"]
        if v is None:
            continue
        roles["low" if v[1][1] == 1 else ("hi" if v[1][1] == 16 else "?")] = c["path"]
    return roles, (t["mul"]["path"] if "mul" in t else None)


def table_vec(x):
    """table operand of PSHUFB -> (table path, scalar term) when it is a (broadcast) row load"""
    if x[0] == "bcast128":
        x = x[1]
    if x[0] == "row":
        return x[1], x[2]
    return None


def is_mul_template(v, x, scalar, roles):
    """v == PSHUFB(HI[c], hi(x)) ^ PSHUFB(LOW[c], lo(x))"""
    m = match(("op", "BitXor", V("a"), V("b")), v)
    if m is None:
        return False, "not an xor of two table look-ups"
    parts = [m["a"], m["b"]]
    lo = terms.normalise(("op", "BitAnd", x, ("splat8", ("const", 15))))
    hi_alts = [terms.normalise(("op", "BitAnd", ("srl64", 4, x), ("splat8", ("const", 15)))),
               ("srl64", 4, terms.normalise(("op", "BitAnd", x, ("splat8", ("const", 240)))))]
    seen = {}
    for p in parts:
        mm = match(("pshufb", V("t"), V("i")), p)
        if mm is None:
            return False, "operand %s is not a byte shuffle" % fmt(p)[:60]
        tv = table_vec(mm["t"])
        if tv is None:
            return False, "shuffle table is not a row of a nibble table"
        tab, sc = tv
        if terms.normalise(terms.strip_casts(sc)) != scalar:
            return False, "table row is selected by %s, not by the scalar" % fmt(sc)[:40]
        if mm["i"] == lo:
            which = "low"
        elif mm["i"] in hi_alts:
            which = "hi"
        else:
            return False, "shuffle index %s is neither the low nor the high nibble of the input" % fmt(mm["i"])[:80]
        if roles.get(which) != tab:
            return False, "the %s nibble is looked up in %s" % (which, tab.split("::")[-1])
        seen[which] = True
    if seen.get("low") and seen.get("hi"):
        return True, ""
    return False, "both look-ups use the same nibble"


def run(rep, crate, cfg):
    R = "C11-R3"
    std = "feature=std" in crate.d["cfg"]
    roles, MULT = nib_tables(crate)
    kernels = [f for f in c12.unsafe_fns(crate) if c12.classify(crate, f) in ("slice-kernel", "binary-kernel") and not c12.is_dispatcher(crate, f)]
    kernels += [f for k, f in crate.fns.items() if k.startswith("octets::") and k.endswith("_fallback") and f not in kernels]
    n = 0
    for f in sorted(kernels, key=lambda x: x.key):
        short = f.key.split("::")[-1]
        ins = [i.get("s", "") for i in f.f["inputs"]]
        binary = any("BinaryOctetVec" in s for s in ins)
        nsl = ins.count("&mut [u8]") + ins.count("&[u8]")
        has_scalar = any(s.endswith("Octet") for s in ins)
        op = "bin" if binary else ("add" if (nsl == 2 and not has_scalar) else ("fma" if nsl == 2 else "mul"))
        sc_param = len(ins) if has_scalar else None
        scalar = terms.normalise(("call", "octet::Octet::byte", (P(sc_param),))) if sc_param else None
        scalar_alts = [scalar, terms.normalise(("call", "std::convert::From::from", (scalar,)))] if scalar else []

        def sink(ct, t):
            if ct[0] == "store":
                return "store"
            if ct[0] == "call" and isinstance(ct[1], str) and ("_storeu_" in ct[1] or ct[1].endswith("write_unaligned")):
                return "vstore" if "_storeu_" in ct[1] else "wstore"
            if ct[0] == "call" and isinstance(ct[1], str) and ct[1].endswith("BitXorAssign::bitxor_assign"):
                return "xorassign"
            return None
        ls = loops.LoopSummary(f, sink)
        D, S = P(1), (P(2) if nsl == 2 else None)
        for e in ls.events:
            if e["loop"] is None and e["sink"] == "store":
                continue
            n += 1
            where = f.loc()
            fp = "%s#%d" % (e["sink"], [x for x in ls.events if x["sink"] == e["sink"]].index(e))
            if e["sink"] == "vstore":
                at = buf_at(terms.simplify(e["args"][0]))
                v = lane_algebra(e["args"][1], scalar)
                okpos = at is not None and at[1] == D
                pos = at[2] if at else None
                d = ("vload", D, pos)
                s_ = ("vload", S, pos) if S is not None else None
                ok, why = False, ""
                if op == "add":
                    ok = v == terms.normalise(("op", "BitXor", d, s_))
                    why = "value is not dest ^ src at the same position"
                elif op == "mul":
                    ok, why = is_mul_template(v, d, scalar, roles)
                elif op == "fma":
                    m = match(("op", "BitXor", V("a"), V("b")), v)
                    if m is not None and d in (m["a"], m["b"]):
                        other = m["b"] if m["a"] == d else m["a"]
                        ok, why = is_mul_template(other, s_, scalar, roles)
                    else:
                        why = "value is not dest ^ (...)"
                elif op == "bin":
                    ok, why = binary_vector(v, d, scalar, f, ls, e)
                rep.check(okpos and ok, R, f.key, "vector-loop:" + fp, where,
                          "%s: the vector loop stores %s" % (short, {"add": "dest ^ src", "mul": "the nibble-table product c*dest",
                                                                      "fma": "dest ^ c*src", "bin": "dest ^ (c where the packed bit is 1)"}[op]),
                          {"why": why, "value": fmt(v)[:300]}, cfg)
            elif e["sink"] == "wstore":
                at = buf_at(terms.simplify(e["args"][0]))
                v = terms.simplify(e["args"][1])
                rd = lambda b: ("call", V("r", lambda x: isinstance(x, str) and x.endswith("read_unaligned")), (V("p" + str(id(b))),))
                m = match(("op", "BitXor", ("call", V("r1"), (V("p1"),)), ("call", V("r2"), (V("p2"),))), v)
                ok = False
                if m is not None and at is not None:
                    a1, a2 = buf_at(m["p1"]), buf_at(m["p2"])
                    ok = op == "add" and {repr(a1), repr(a2)} == {repr(("at", D, at[2])), repr(("at", S, at[2]))} and at[1] == D
                rep.check(ok, R, f.key, "word-loop:" + fp, where, "%s: the 64-bit loop stores dest ^ src of the same word" % short,
                          {"value": fmt(v)[:200]}, cfg)
            else:
                # scalar store through get_unchecked_mut / iterator element / raw pointer
                if e["sink"] == "xorassign":
                    # `*a ^= b` on references: store(*a, *a ^ *b)
                    place = ("deref", e["args"][0])
                    e = dict(e, args=(place, ("op", "BitXor", place, ("deref", e["args"][1]))))
                place = terms.simplify(e["args"][0])
                v = terms.normalise(terms.strip_casts(c10._norm(e["args"][1])))
                pm = c10._norm(place)
                cur = pm       # current value of the destination byte
                idx = None
                mi = match(("index", V("b"), V("i")), pm)
                if mi is not None:
                    idx = mi["i"]
                me = match(("deref", ("field", ("item", V("k")), 1)), pm)
                if me is not None:
                    idx = ("field", ("item", me["k"]), 0)       # (i, &mut dest[i]) from enumerate()
                src_at = lambda: c10._norm(("index", S, idx)) if (S is not None and idx is not None) else None
                ok = False
                why = ""
                if op == "add":
                    ok = S is not None and v == terms.normalise(("op", "BitXor", cur, src_at()))
                elif op in ("mul", "fma"):
                    if MULT is None:
                        why = "no product table"
                    else:
                        arg = cur if op == "mul" else src_at()
                        alts = []
                        for sc in scalar_alts:
                            prod = c10._norm(("index", ("index", ("item", MULT), sc), arg)) if arg is not None else None
                            alts.append(prod if op == "mul" else terms.normalise(("op", "BitXor", cur, prod)))
                        ok = v in alts
                elif op == "bin":
                    ok, why = binary_scalar(v, cur, scalar, e, ls)
                rep.check(ok, R, f.key, "scalar-loop:" + fp, where,
                          "%s: the scalar loop stores %s" % (short, {"add": "dest[i] ^ src[i]", "mul": "MUL[c][dest[i]]", "fma": "dest[i] ^ MUL[c][src[i]]",
                                                                      "bin": "dest[i] ^ c * bit(i)"}[op]),
                          {"why": why, "value": fmt(v)[:240], "place": fmt(pm)[:100]}, cfg)
    if std:
        rep.floor(R, n, 29, "stores of the kernels (vector loops, word loops, scalar tails)", cfg)
    else:
        rep.floor(R, n, 4, "stores of the portable kernels", cfg)


SHUF = (0x0303030303030303, 0x0202020202020202, 0x0101010101010101, 0)
BITSEL = 0x8040201008040201


def binary_vector(v, d, scalar, f, ls, e):
    m = match(("op", "BitXor", V("a"), V("b")), v)
    if m is None or d not in (m["a"], m["b"]):
        return False, "value is not dest ^ (...)"
    prod = m["b"] if m["a"] == d else m["a"]
    # AVX-512: maskz_mov_epi8(bits, splat8(c))
    mm = match(("maskz8", V("k"), ("splat8", V("c"))), prod)
    if mm is not None:
        if terms.normalise(terms.strip_casts(mm["c"])) != scalar:
            return False, "the broadcast byte is not the scalar"
        k = terms.simplify(mm["k"])
        okk = k[0] == "deref" and terms.find(("item", e["loop"]), k) is not None
        return okk, "mask is not the packed word addressed by the loop index"
    # AVX2: cmpeq8(andnot(pshufb(splat32(word), SHUF), BITSEL), zero) & splat8(c)
    ma = match(("op", "BitAnd", V("x"), V("y")), prod)
    if ma is not None:
        for sel, spl in ((ma["x"], ma["y"]), (ma["y"], ma["x"])):
            ms = match(("splat8", V("c")), spl)
            if ms is None or terms.normalise(terms.strip_casts(ms["c"])) != scalar:
                continue
            mc = match(("cmpeq8", V("p"), V("q")), sel)
            if mc is None:
                return False, "selection is not a byte compare"
            other = [z for z in (mc["p"], mc["q"]) if z != ("zero",)]
            if len(other) != 1 or ("zero",) not in (mc["p"], mc["q"]):
                return False, "compare is not against zero"
            mn = match(("andnot", ("pshufb", ("splat32", V("w")), ("set64", V("sh"))), ("splat64", V("bs"))), other[0])
            if mn is None:
                return False, "bit expansion is not andnot(pshufb(splat32(word), shuffle), bit-select)"
            sh = tuple(z[1] if z[0] == "const" else None for z in mn["sh"])
            bs = mn["bs"][1] if mn["bs"][0] == "const" else None
            if sh != SHUF:
                return False, "shuffle mask %r is not (3,3,..,2,2,..,1,1,..,0,0,..)" % (sh,)
            if bs is None or (bs & ((1 << 64) - 1)) != BITSEL:
                return False, "bit-select mask is not 0x8040201008040201"
            if terms.find(("item", e["loop"]), mn["w"]) is None:
                return False, "the packed word is not addressed by the loop index"
            return True, ""
    return False, "product is neither a masked broadcast nor a compare-select of the scalar"


def binary_scalar(v, cur, scalar, e, ls):
    m = match(("op", "BitXor", V("a"), V("b")), v)
    if m is None or cur not in (m["a"], m["b"]):
        return False, "value is not dest[i] ^ (...)"
    prod = m["b"] if m["a"] == cur else m["a"]
    mm = match(("op", "Mul", V("x"), V("y")), prod)
    if mm is None:
        return False, "term is not scalar * bit"
    for s, b in ((mm["x"], mm["y"]), (mm["y"], mm["x"])):
        if terms.normalise(terms.strip_casts(s)) != scalar:
            continue
        # bit: (first_bits >> (bifb + i)) & 1     or     bextr(first_bits, (bifb | 0x100) + i)
        # (w >> sh) & 1; normalise writes x & 1 as x % 2
        m1 = match(("op", "Rem", ("op", "Shr", V("w"), V("sh")), ("const", 2)), terms.normalise(b))
        if m1 is not None:
            return terms.find(("item", e["loop"]), m1["sh"]) is not None, "shift does not follow the loop index"
        m2 = match(("call", V("bx", lambda z: isinstance(z, str) and "_bextr2_u32" in z), (V("w"), V("ctl"))), b)
        if m2 is not None:
            ctl = terms.normalise(terms.strip_casts(m2["ctl"]))
            okc = terms.find(("op", "BitOr", V("a"), ("const", 256)), ctl) is not None or terms.find(("op", "BitOr", ("const", 256), V("a")), ctl) is not None
            it = terms.find(("field", ("item", e["loop"]), 0), ctl) is not None or terms.find(("item", e["loop"]), ctl) is not None
            return okc and it, "bit-field control is not (start | 0x100) + i"
        return False, "bit term %s not recognised" % fmt(b)[:80]
    return False, "the factor is not the scalar"
