"""C12 — unsafe code stays inside its buffers.

Every memory-touching operation inside an unsafe block / unsafe fn of the crate is an obligation
(base object, byte offset, width); it is discharged by abstract interpretation with symbolic
intervals, split over the 64 residues of the buffer length (len = 64q + r).
The same runs produce the access log that C11-R2 (exact cover) reads.
"""
from .. import mir, absint, terms
from ..aff import Aff, IntV, norm, le_proved, add as iadd

QMAX = 1 << 40


def unsafe_fns(crate):
    out = []
    for k, f in crate.fns.items():
        ub = [u for u in f.f["unsafe_blocks"] if u["user"]]
        if f.f["unsafe"] or ub:
            out.append(f)
    return out


def classify(crate, f):
    ins = f.f.get("inputs", [])
    tys = [i.get("s", "") for i in ins]
    if any("BinaryOctetVec" in t for t in tys) and any(t in ("&mut [u8]",) for t in tys):
        return "binary-kernel"
    if tys and tys[0] == "&mut [u8]" and all(t in ("&mut [u8]", "&[u8]") or t.endswith("Octet") for t in tys):
        return "slice-kernel"
    if any("SymbolSlab" in t for t in tys):
        return "slab"
    if tys and all(t.endswith("Octet") for t in tys):
        return "octet-op"
    return "other"


def is_dispatcher(crate, f):
    """safe fn whose unsafe blocks only call crate-local unsafe fns (kernels)"""
    if f.f["unsafe"]:
        return False
    ub = [u["sp"] for u in f.f["unsafe_blocks"] if u["user"]]
    if not ub:
        return False
    for blk in f.blocks:
        if blk["cleanup"]:
            continue
        for node in blk["stmts"] + [blk["term"]]:
            sp = node.get("usp") or node["sp"]
            if not any(inside(sp, u) for u in ub):
                continue
            if node.get("t") == "call":
                if node.get("callee_unsafe") and node.get("callee_local"):
                    continue
                if node.get("callee_unsafe"):
                    return False
            for p in absint.places_of(node):
                if p["proj"] and p["proj"][0]["p"] == "deref" and f.locals[p["l"]]["ty"].get("k") == "ptr":
                    return False
    return True


def inside(sp, outer):
    if sp["file"] != outer["file"]:
        return False
    a = (sp["l0"], sp["c0"])
    b = (sp["l1"], sp["c1"])
    return (outer["l0"], outer["c0"]) <= a and b <= (outer["l1"], outer["c1"])


def kernel_args(an, st, crate, fn, r, nonempty):
    """entry state of a kernel: all slices have the same length 64q + r; a BinaryOctetVec of that
    length has ceil(len/64) words (struct invariant, see C12-R4)"""
    q = an.new_atom("q", 1 if (nonempty and r == 0) else 0, QMAX)
    af = Aff(r, {q: 64})
    rng = an.rng_fn(st)
    ln = IntV(af.lo(rng), af.hi(rng), 64, False, af, af)
    words = Aff(1 if r > 0 else 0, {q: 1})
    wl = IntV(words.lo(rng), words.hi(rng), 64, False, words, words)
    args = []
    objs = {}
    for i in range(fn.argc):
        l = fn.locals[i + 1]
        tj = l["ty"]
        nm = l.get("name") or "arg%d" % (i + 1)
        if tj.get("k") == "ref" and tj["to"].get("k") == "slice":
            oid = an.new_obj(st, absint.Obj("slice", IntV.top(8, False), ln, esize=1, name=nm))
            objs[nm] = oid
            args.append(absint.SliceV(oid, ln, tj.get("mut", False)))
        elif tj.get("k") == "ref" and tj["to"].get("adt", "").endswith("BinaryOctetVec"):
            adt = crate.adts[tj["to"]["adt"]]
            fields = []
            for fl in adt["variants"][0]["fields"]:
                if fl["ty"].get("adt", "").endswith("Vec"):
                    oid = an.new_obj(st, absint.Obj("slice", IntV.top(64, False), wl, esize=8, name=nm + "." + fl["name"]))
                    objs[nm + "." + fl["name"]] = oid
                    fields.append(absint.SliceV(oid, wl, False))
                else:
                    fields.append(ln)
            so = an.new_obj(st, absint.Obj("struct", fields=fields, name=tj["to"]["adt"]))
            args.append(absint.RefV(("obj", so, ()), False))
        else:
            args.append(an.entry_value(st, tj, nm))
    return args, objs, q, ln


def run_kernel(crate, fn, kind, residues=range(64)):
    """returns (merged mem obligations, per-residue access logs)"""
    merged = {}
    logs = {}
    nonempty = kind == "binary-kernel"      # the dispatcher returns early on empty input
    for r in residues:
        an = absint.Analysis(crate)
        st = absint.State()
        args, objs, q, ln = kernel_args(an, st, crate, fn, r, nonempty)
        an.stack.append((fn.key, "entry r=%d" % r))
        an.run_fn(fn, args, st)
        an.stack.pop()
        for key, o in an.obls.items():
            if key[1] != "mem":
                continue
            m = merged.get(key)
            if m is None:
                merged[key] = dict(o, residues=[] if o["ok"] else [r])
            elif not o["ok"]:
                m["ok"] = False
                m["residues"].append(r)
                if m["detail"] is None:
                    m["detail"] = o["detail"]
        logs[r] = {"log": an.mem_log, "objs": objs, "q": q, "len": ln, "an": an, "state": st}
    return merged, logs


def run_generic(crate, fn, overrides=None, summaries=None, facts=None):
    an = absint.Analysis(crate)
    if summaries:
        summaries(an)
    st = absint.State()
    args = an.entry_args(st, fn, overrides)
    if facts:
        facts(an, st, args)
    an.stack.append((fn.key, "entry"))
    an.run_fn(fn, args, st)
    an.stack.pop()
    return an


def report_mem(rep, R, cfg, merged, fnkey, floor, what):
    n = 0
    for key, o in sorted(merged.items(), key=lambda kv: (kv[0][0], str(kv[0][2]))):
        fnk, kind, fp = key
        if kind != "mem":
            continue
        n += 1
        rep.check(o["ok"], R, fnk, "mem:" + str(fp), o["loc"], "%s: %s" % (fnk.split("::")[-1], o["msg"][:160]),
                  {"residues": o.get("residues", [])[:8], "values": o["detail"]} if not o["ok"] else None, cfg)
    rep.floor(R, n, floor, "memory obligations of %s (%s)" % (fnkey.split("::")[-1], what), cfg)
    return n


# confirmed by reading (DESIGN.md appendix A.1): number of memory-touching sites per function, as counted
# by this engine's site keys on the pinned tree
FLOORS = {
    "fused_addassign_mul_scalar_binary_avx512": 9,
    "fused_addassign_mul_scalar_binary_avx2": 6,
    "mulassign_scalar_avx512": 9, "fused_addassign_mul_scalar_avx512": 11, "add_assign_avx512": 12,
    "mulassign_scalar_avx2": 9, "mulassign_scalar_ssse3": 9,
    "fused_addassign_mul_scalar_avx2": 11, "fused_addassign_mul_scalar_ssse3": 11,
    "add_assign_avx2": 12, "add_assign_ssse3": 12,
    "mulassign_scalar_fallback": 2, "fused_addassign_mul_scalar_fallback": 3, "add_assign_fallback": 8,
}


def run(rep, crate, cfg, want_logs=False):
    R1 = "C12-R1"
    fns = unsafe_fns(crate)
    std = "feature=std" in crate.d["cfg"]
    rep.floor("C12-R5", len(fns), 21 if std else 6, "functions containing unsafe code", cfg)
    all_logs = {}
    reviewed = set()
    for f in sorted(fns, key=lambda x: x.key):
        short = f.key.split("::")[-1]
        kind = classify(crate, f)
        if is_dispatcher(crate, f):
            reviewed.add(f.key)
            rep.ok("C12-R5", f.loc(), "%s: unsafe blocks only call crate kernels (their preconditions: CPU features -> C11-R1, "
                   "equal lengths -> C12-R4)" % short, None, cfg)
            continue
        if kind in ("slice-kernel", "binary-kernel"):
            merged, logs = run_kernel(crate, f, kind)
            n = report_mem(rep, R1, cfg, merged, f.key, FLOORS.get(short, 1), "64 residues of len = 64q + r")
            all_logs[f.key] = (kind, logs)
            reviewed.add(f.key)
        elif kind == "octet-op":
            an = run_generic(crate, f)
            merged = {k: o for k, o in an.obls.items() if k[1] == "mem"}
            report_mem(rep, "C12-R2", cfg, merged, f.key, 3, "table look-ups indexed by u8 / log sums")
            reviewed.add(f.key)
        elif kind == "slab":
            slab_self_checking = run_slab(rep, crate, cfg, f)
            reviewed.add(f.key)
    for f in fns:
        rep.check(f.key in reviewed, "C12-R5", f.key, "unreviewed-unsafe", f.loc(),
                  "%s contains unsafe code and is covered by an obligation generator" % f.key, None, cfg)
    run_encapsulation(rep, crate, cfg, locals().get("slab_self_checking", False))
    return all_logs


# ---------------------------------------------------------------------------
# paired borrow of the slab

def run_slab(rep, crate, cfg, f):
    """paired borrow: both raw slices in bounds and disjoint.  Proved from the checks the function itself performs
    (no struct invariant is assumed: a deserialized slab may violate data.len() == count * symbol_size)."""
    R = "C12-R3"
    short = f.key.split("::")[-1]
    adtp = f.f["inputs"][0]["to"]["adt"]
    adt = crate.adts[adtp]
    phys = [k for k, g in crate.fns.items() if g.f.get("impl_self", {}).get("adt") == adtp and g.argc == 2
            and g.f["output"].get("s") == "usize" and g.f["inputs"][1].get("s") == "usize"]
    BIG = (1 << 63) - 1

    def entry(order, with_invariant=False):
        an = absint.Analysis(crate)
        st = absint.State()
        count = an.atom_val("count", 0, (1 << 31) if with_invariant else BIG)
        ss = an.atom_val("symbol_size", 0, (1 << 31) if with_invariant else BIG)
        ca, sa = count.exact().single()[0], ss.exact().single()[0]
        if with_invariant:
            total = Aff.atom(an.prod_atom(ca, sa))
            rng = an.rng_fn(st)
            dlen = IntV(total.lo(rng), total.hi(rng), 64, False, total, total)
        else:
            dlen = an.atom_val("len(data)", 0, BIG)
        data = an.new_obj(st, absint.Obj("slice", IntV.top(8, False), dlen, esize=1, name="data"))
        fields = []
        for fl in adt["variants"][0]["fields"]:
            if fl["name"] == "data" or fl["ty"]["s"].endswith("Vec<u8>"):
                fields.append(absint.SliceV(data, dlen, True))
            elif fl["name"] == "count":
                fields.append(count)
            elif fl["name"] == "symbol_size":
                fields.append(ss)
            else:
                fields.append(absint.TOP)
        so = an.new_obj(st, absint.Obj("struct", fields=fields, name=adtp))
        d = an.atom_val("dest_phys", 0, BIG)
        s_ = an.atom_val("src_phys", 0, BIG) if order != "eq" else d
        da, sa_ = d.exact().single()[0], s_.exact().single()[0]
        f0 = None
        if order == "lt":
            f0 = Aff(-1, {sa_: 1, da: -1})
        elif order == "gt":
            f0 = Aff(-1, {da: 1, sa_: -1})
        if f0 is not None:
            an.facts.append(f0)
            if with_invariant:
                an.facts.append(an.scale_by_atom(f0, sa))    # the same relation multiplied by symbol_size >= 0
        seq = [d, s_]
        for p in phys:
            def h(an_, st_, fid, fn, t, args, record, seq=seq, cnt=[0]):
                v = seq[min(cnt[0] % 2, 1)]
                cnt[0] += 1
                return v, st_
            an.summaries[p] = h
        args = [absint.RefV(("obj", so, ()), True), an.atom_val("dest", 0, BIG), an.atom_val("src", 0, BIG)]
        an.stack.append((f.key, "entry " + order))
        an.run_fn(f, args, st)
        an.stack.pop()
        return an, st
    rep.floor(R, len(phys), 1, "logical->physical index map of the slab", cfg)
    # 1. bounds, without any struct invariant
    an, st = entry("any")
    merged = {k: dict(o) for k, o in an.obls.items() if k[1] == "mem"}
    self_checking = all(o["ok"] for o in merged.values()) and len(merged) >= 4
    if not self_checking:
        # fall back: bounds from the invariant data.len() == count * symbol_size (must then be established by every constructor)
        merged = {}
        for order in ("lt", "gt"):
            an2, st2 = entry(order, with_invariant=True)
            for key, o in an2.obls.items():
                if key[1] != "mem":
                    continue
                m = merged.setdefault(key, dict(o))
                m["ok"] = m["ok"] and o["ok"]
        rep.assumptions.append("C12-R3: SymbolSlab invariant data.len() == count * symbol_size (established by every constructor, C12-R4)")
    report_mem(rep, R, cfg, merged, f.key, 4, "from the function's own range checks" if self_checking else "from the struct invariant, dest < src and dest > src")
    # 2. disjointness: either asserted on the very offsets used, or derived from dest != src under the invariant
    tb = terms.TermBuilder(f)
    N = lambda t: terms.normalise(terms.strip_casts(terms.simplify(t)))
    rp = []
    for bi, t in f.calls():
        if (t.get("callee") or "").split("::")[-1] in ("from_raw_parts", "from_raw_parts_mut"):
            ct = N(tb.call_term(bi, t))
            off = terms.find(("call", terms.V("add", lambda x: isinstance(x, str) and x.endswith("::add")), (terms.V("p"), terms.V("o"))), ct[2][0])
            rp.append((bi, off[0]["p"] if off else None, N(off[0]["o"]) if off else None, N(ct[2][1])))
    asserted = False
    if len(rp) == 2 and rp[0][1] == rp[1][1] and rp[0][3] == rp[1][3] and rp[0][2] is not None and rp[1][2] is not None:
        w = rp[0][3]
        want = [N(("op", "Le", w, ("call", "std::num::<impl usize>::abs_diff", (rp[0][2], rp[1][2])))),
                N(("op", "Le", w, ("call", "std::num::<impl usize>::abs_diff", (rp[1][2], rp[0][2]))))]
        for bi, _, _, _ in rp:
            dnf = terms.path_dnf(tb, bi) or []
            ok_here = bool(dnf) and all(any(v and terms.canon_cond(N(c), v)[0] in want for c, v in cj) for cj in dnf)
            asserted = ok_here if bi == rp[0][0] else (asserted and ok_here)
    if asserted:
        rep.ok(R, f.loc(), "%s: the two raw slices start at offsets whose distance is asserted to be >= their length "
               "(abs_diff(dest_start, src_start) >= symbol_size on every path): they cannot overlap" % short, None, cfg)
    else:
        for order in ("lt", "gt"):
            an2, st2 = entry(order, with_invariant=True)
            rl = list(an2.raw_parts_log)
            ok = False
            if len(rl) >= 2:
                a, b_ = rl[0], rl[1]
                rng = an2.rng_fn(absint.State())
                ea = norm(iadd(a["off"], a["bytes"]), rng)
                eb = norm(iadd(b_["off"], b_["bytes"]), rng)
                ok = le_proved(ea, b_["off"], rng) or le_proved(eb, a["off"], rng)
            rep.check(ok, R, f.key, "pair-disjoint-" + order, f.loc(),
                      "%s: the mutable and the shared symbol range do not overlap when dest %s src" % (short, "<" if order == "lt" else ">"),
                      {"ranges": [(repr(x["off"]), repr(x["bytes"])) for x in rl]}, cfg)
    an3, st3 = entry("eq")
    rep.check(not an3.raw_parts_log, R, f.key, "pair-distinct-enforced", f.loc(),
              "%s: with dest == src no slice is created (the call is refused)" % short,
              {"created": len(an3.raw_parts_log)}, cfg)
    rep.analysed["slab_pair_proof_" + cfg] = "self-checking" if (self_checking and asserted) else "struct invariant"
    return self_checking and asserted


# ---------------------------------------------------------------------------
# encapsulation lemmas the bounds rest on

LEN_CHANGING = ("push", "pop", "truncate", "resize", "extend", "extend_from_slice", "clear", "insert", "remove", "drain",
                "append", "split_off", "retain", "dedup", "swap_remove", "set_len", "reserve", "shrink_to_fit")


def run_encapsulation(rep, crate, cfg, slab_self_checking=False):
    R = "C12-R4"
    targets = {}
    for p, a in crate.adts.items():
        if p.endswith("BinaryOctetVec") or p.endswith("SymbolSlab"):
            targets[p] = a
    rep.floor(R, len(targets), 2, "invariant-carrying structs (BinaryOctetVec, SymbolSlab)", cfg)
    for p, a in sorted(targets.items()):
        fs = a["variants"][0]["fields"]
        priv = all(f["vis"] not in ("pub", "crate") for f in fs)
        rep.check(priv, R, p, "fields-private", mir.sp_loc(a["sp"]), "%s: fields are private to their module" % p.split("::")[-1],
                  {"vis": {f["name"]: f["vis"] for f in fs}}, cfg)
        mod = p.rsplit("::", 1)[0]
        ctors = []
        for k, f in crate.fns.items():
            for blk in f.blocks:
                if blk["cleanup"]:
                    continue
                for i, s in enumerate(blk["stmts"]):
                    if s["s"] != "assign":
                        continue
                    rv = s["rv"]
                    if rv["r"] == "aggregate" and rv.get("adt") == p:
                        ctors.append((k, f, blk["i"], i, s))
                    # field writes outside constructors
                    lhs = s["lhs"]
                    for e in lhs["proj"]:
                        if e["p"] == "field" and e.get("adt") == p and e.get("name") in ("elements", "length", "data", "count", "symbol_size"):
                            rep.bad(R, k, "field-write:%s.%s" % (p.split("::")[-1], e.get("name")), mir.stmt_loc(s),
                                    "%s writes %s.%s after construction" % (k, p.split("::")[-1], e.get("name")), None, cfg)
        for k, f, b, i, s in ctors:
            short = p.split("::")[-1]
            if f.f.get("impl_derived"):
                if ("Deserialize" in (f.f.get("impl_trait") or "") or "serde" in k) and short == "SymbolSlab" and slab_self_checking:
                    rep.ok(R, f.loc(), "%s: derived Deserialize may build a slab that violates the length invariant; the only unsafe "
                           "user (get_pair_mut) checks its byte ranges itself (C12-R3), all other accessors use checked slicing" % k.split("::")[-1], None, cfg)
                elif "Deserialize" in (f.f.get("impl_trait") or "") or "serde" in k:
                    rep.bad(R, k, "derived-deserialize", f.loc(),
                            "%s: derived Deserialize constructs %s without establishing its length invariant" % (k, short), None, cfg)
                else:
                    rep.ok(R, f.loc(), "%s: derived impl copies an existing %s" % (k, short), None, cfg)
                continue
            tb = terms.TermBuilder(f)
            ops = [tb.operand(b, i, o) for o in s["rv"]["ops"]]
            names = s["rv"]["fields"]
            fld = dict(zip(names, ops))
            N = lambda t: terms.normalise(terms.strip_casts(terms.simplify(t)))
            if short == "BinaryOctetVec":
                conds = [terms.canon_cond(N(c), v) for c, v in tb.path_conditions(b)]
                want = N(("op", "Eq", ("call", "std::vec::Vec::<T, A>::len", (("ref", fld["elements"]),)),
                          ("ceildiv", fld["length"], ("const", 64))))
                got = [N(("op", c[1], strip_refs(c[2]), strip_refs(c[3]))) if c[0] == "op" else c for c, v in conds if v]
                ok = want in got or N(("op", "Eq", want[3], want[2])) in got
                rep.check(ok, R, k, "ctor-invariant", f.loc(),
                          "%s::%s builds the value only under elements.len() == ceil(length / 64)" % (short, k.split("::")[-1]),
                          {"conds": [terms.fmt(c)[:120] for c in got]}, cfg)
            else:
                # data.len() == count * symbol_size established on the path to the aggregate
                ok, why = slab_ctor_invariant(crate, f, tb, b, i, fld)
                rep.check(ok, R, k, "ctor-invariant", f.loc(),
                          "%s::%s establishes data.len() == count * symbol_size (%s)" % (short, k.split("::")[-1], why), None, cfg)
        rep.floor(R, len([c for c in ctors if not c[1].f.get("impl_derived")]), 1 if p.endswith("BinaryOctetVec") else 2,
                  "hand-written constructors of %s" % p.split("::")[-1], cfg)
        # length-changing calls on the protected vectors
        vec_fields = [f["name"] for f in fs if f["ty"].get("adt", "").endswith("Vec")]
        for k, f in crate.fns.items():
            if not k.startswith(mod + "::"):
                continue
            tb = None
            for bi, t in f.calls():
                cal = (t.get("callee") or "")
                last = cal.split("::")[-1]
                if "Vec" in cal and last in LEN_CHANGING and t["args"]:
                    tb = tb or terms.TermBuilder(f)
                    a0 = tb.operand(bi, "T", t["args"][0])
                    hit = terms.find(("field", ("deref", ("param", 1)), terms.V("i")), a0)
                    if hit and isinstance(hit[0]["i"], int):
                        self_adt = f.f.get("impl_self", {}).get("adt")
                        if self_adt == p and fs[hit[0]["i"]]["name"] in vec_fields and fs[hit[0]["i"]]["name"] in ("data", "elements"):
                            rep.bad(R, k, "length-change:" + last, mir.stmt_loc(t),
                                    "%s changes the length of %s.%s after construction" % (k, p.split("::")[-1], fs[hit[0]["i"]]["name"]), None, cfg)
    # equal-length precondition of the private two-slice kernels
    for k, f in sorted(crate.fns.items()):
        if classify(crate, f) not in ("slice-kernel",) or f.f["vis"] in ("pub", "crate"):
            continue
        if not (f.f["unsafe"] or [u for u in f.f["unsafe_blocks"] if u["user"]]):
            continue
        ins = [i.get("s") for i in f.f["inputs"]]
        if ins.count("&mut [u8]") + ins.count("&[u8]") < 2:
            continue
        self_guard = has_len_guard(f, ("param", 1), ("param", 2), at_entry=True)
        if self_guard:
            rep.ok(R, f.loc(), "%s asserts that both slices have the same length itself" % k.split("::")[-1], None, cfg)
            continue
        sites = []
        for ck, g in crate.fns.items():
            for bi, t in g.calls():
                if (t.get("resolved") or t.get("callee")) == k:
                    sites.append((g, bi, t))
        for g, bi, t in sites:
            tb = terms.TermBuilder(g)
            a0 = tb.operand(bi, "T", t["args"][0])
            a1 = tb.operand(bi, "T", t["args"][1])
            ok = has_len_guard(g, a0, a1, block=bi, tb=tb)
            rep.check(ok, R, g.key, "equal-length-guard->" + k.split("::")[-1], mir.stmt_loc(t),
                      "call of %s is dominated by an assertion that both slices have equal length" % k.split("::")[-1], None, cfg)
        rep.floor(R, len(sites), 1, "call sites of %s" % k.split("::")[-1], cfg)
    # the binary kernels: octets.len() == other.len() asserted by the dispatcher
    for k, f in sorted(crate.fns.items()):
        if classify(crate, f) != "binary-kernel" or not f.f["unsafe"]:
            continue
        for ck, g in crate.fns.items():
            for bi, t in g.calls():
                if (t.get("resolved") or t.get("callee")) == k:
                    tb = terms.TermBuilder(g)
                    a0 = tb.operand(bi, "T", t["args"][0])
                    a1 = tb.operand(bi, "T", t["args"][1])
                    ok = has_len_guard(g, a0, a1, block=bi, tb=tb, second_is_struct=True)
                    rep.check(ok, R, g.key, "equal-length-guard->" + k.split("::")[-1], mir.stmt_loc(t),
                              "call of %s is dominated by assert_eq!(octets.len(), other.len())" % k.split("::")[-1], None, cfg)


def strip_refs(t):
    while isinstance(t, tuple) and t and t[0] in ("ref", "deref") and t[1][0] in ("ref", "deref", "call", "op", "ceildiv", "field", "param"):
        if t[0] == "deref" and t[1][0] == "ref":
            t = t[1][1]
        elif t[0] == "ref":
            return t
        else:
            break
    return t


def len_of(t):
    return ("call", "std::slice::<impl [T]>::len", (t,))


def has_len_guard(fn, a, b, at_entry=False, block=None, tb=None, second_is_struct=False):
    tb = tb or terms.TermBuilder(fn)
    N = lambda t: terms.normalise(terms.strip_casts(terms.simplify(t)))
    blocks = [block] if block is not None else fn.cfg.exits()

    def unref(t):
        while t[0] in ("ref", "deref", "deref*"):
            t = t[1]
        return t
    ua, ub = unref(a), unref(b)
    for blk in blocks:
        for c, v in tb.path_conditions(blk):
            c = N(c)
            if not v or c[0] != "op" or c[1] != "Eq":
                continue
            sides = []
            for x in (c[2], c[3]):
                x = unref(x)
                if x[0] == "call" and isinstance(x[1], str) and x[1].split("::")[-1] == "len" and len(x[2]) == 1:
                    sides.append(unref(x[2][0]))
            if len(sides) == 2 and {repr(sides[0]), repr(sides[1])} == {repr(ua), repr(ub)}:
                return True
    return False


def slab_ctor_invariant(crate, f, tb, b, i, fld):
    N = lambda t: terms.normalise(terms.strip_casts(terms.simplify(t)))
    data, count, ss = N(fld.get("data", ("unk",))), N(fld.get("count", ("unk",))), N(fld.get("symbol_size", ("unk",)))
    prod = N(("op", "Mul", count, ss))
    # idiom 1: vec![0; count * symbol_size]
    m = terms.match(("call", "std::vec::from_elem", (terms.V("x"), terms.V("n"))), data)
    if m is not None and N(m["n"]) == prod:
        return True, "vec![_; count * symbol_size]"
    # idiom 2: with_capacity + one extend_from_slice(len == symbol_size, asserted) per element of a collection of `count` items
    if data[0] == "call" and isinstance(data[1], str) and (data[1].endswith("with_capacity") or data[1].endswith("Vec::<T>::new")):
        from .. import loops

        def sink(ct, t):
            if ct[0] == "call" and isinstance(ct[1], str) and ct[1].split("::")[-1] in LEN_CHANGING and "Vec" in ct[1]:
                return ct[1].split("::")[-1]
            return None
        ls = loops.LoopSummary(f, sink)
        evs = [e for e in ls.events if e["args"] and e["args"][0] == ("ref", fld["data"])]
        if len(evs) == 1 and evs[0]["sink"] == "extend_from_slice" and evs[0]["loop"] is not None:
            lp = ls.loops[evs[0]["loop"]]
            # loop over the collection whose len() is `count`
            src = lp["source"]
            cnt_ok = False
            if count[0] == "call" and count[1].split("::")[-1] == "len":
                coll = count[2][0]
                while coll[0] in ("ref", "deref", "deref*"):
                    coll = coll[1]
                cnt_ok = terms.find(coll, src or ("none",)) is not None or src == coll
            # each appended slice has length symbol_size (asserted in the loop body)
            conds = [terms.canon_cond(N(ls.canon(c)), v) for c, v in ls.tb.path_conditions(evs[0]["block"])]
            arg = evs[0]["args"][1]
            while arg[0] in ("ref", "deref", "deref*"):
                arg = arg[1]
            len_ok = False
            for c, v in conds:
                if v and c[0] == "op" and c[1] == "Eq":
                    sides = [c[2], c[3]]
                    if ss in [N(strip_refs(x)) for x in sides] or any(N(x) == ss for x in sides):
                        other = [x for x in sides if N(x) != ss and N(strip_refs(x)) != ss]
                        for o in other:
                            o2 = o
                            while o2[0] in ("ref", "deref", "deref*"):
                                o2 = o2[1]
                            if o2[0] == "call" and o2[1].split("::")[-1] == "len":
                                inner = o2[2][0]
                                while inner[0] in ("ref", "deref", "deref*"):
                                    inner = inner[1]
                                if inner == arg:
                                    len_ok = True
            if cnt_ok and len_ok:
                return True, "count appends of exactly symbol_size bytes each"
            return False, "append loop not recognised (count source %s, length assert %s)" % (cnt_ok, len_ok)
    # idiom 3: gather: data built by a helper that returns count*ss bytes -> not recognised automatically
    return False, "no recognised construction idiom"
