"""C13 — wire formats are the RFC 6330 layouts (sections 3.2, 3.3.2, 3.3.3) and round-trip.

The six (de)serialisers are evaluated in the bit-provenance domain (sa/bits.py); every output
bit must be exactly the bit the RFC layout prescribes.  Layout tables below are written from the RFC.
"""
from .. import mir, terms, bits
from ..terms import V, match

# RFC layouts: list of (field role, width) from the first byte, big-endian within a field
PID_LAYOUT = [("sbn", 8), ("esi", 24)]
OTI_LAYOUT = [("F", 40), ("reserved", 8), ("T", 16), ("Z", 8), ("N", 16), ("Al", 8)]

# role -> (field type, position among fields of that type)  [struct fields are matched by type+order]
PID_FIELDS = {"sbn": ("u8", 0), "esi": ("u32", 0)}
OTI_FIELDS = {"F": ("u64", 0), "T": ("u16", 0), "Z": ("u8", 0), "N": ("u16", 1), "Al": ("u8", 1)}


def expected_bytes(layout):
    """list over output bytes of list over bits (LSB first) of (role, bit index) or 0"""
    out = []
    for role, w in layout:
        nb = w // 8
        for j in range(nb):
            hi = w - 8 * j
            byte = []
            for k in range(8):
                pos = hi - 8 + k
                byte.append(0 if role == "reserved" else (role, pos))
            out.append(byte)
    return out


def find_pair(crate, nbytes):
    """(serialize fn, deserialize fn, adt path) by role: fn(&S) -> [u8; n] and fn(&[u8; n]) -> S"""
    ser = des = None
    arr = "[u8; %d]" % nbytes
    for k, f in crate.fns.items():
        if f.f["kind"] != "AssocFn" or f.argc != 1 or f.f.get("impl_trait"):
            continue
        i0 = f.f["inputs"][0]
        out = f.f["output"]
        if i0.get("k") == "ref" and i0["to"].get("k") == "adt" and out.get("s") == arr:
            ser = f
        if i0.get("k") == "ref" and i0["to"].get("s") == arr and out.get("k") == "adt":
            des = f
    return ser, des


def field_index(adt, fields_map):
    """role -> field index in declaration order"""
    out = {}
    fs = adt["variants"][0]["fields"]
    for role, (ty, nth) in fields_map.items():
        idxs = [i for i, f in enumerate(fs) if f["ty"]["s"] == ty]
        if nth >= len(idxs):
            return None
        out[role] = idxs[nth]
    return out


def check_codec(rep, crate, cfg, name, nbytes, layout, fields_map, widths):
    R = "C13-R1"
    ser, des = find_pair(crate, nbytes)
    rep.floor(R, (ser is not None) + (des is not None), 2, "%s serialize/deserialize pair ([u8; %d])" % (name, nbytes), cfg)
    if ser is None or des is None:
        return None
    adtp = ser.f["inputs"][0]["to"]["adt"]
    adt = crate.adts.get(adtp)
    fidx = field_index(adt, fields_map) if adt else None
    if fidx is None:
        rep.bad(R, adtp, "struct-shape", ser.loc(), "%s struct does not have the expected field types" % name, None, cfg)
        return None
    role_of_idx = {i: r for r, i in fidx.items()}
    exp = expected_bytes(layout)
    # ---- serialize -------------------------------------------------------------------------
    tb = terms.TermBuilder(ser, keep_casts=True)
    rt = tb.return_term()
    okshape = rt[0] == "agg" and rt[1] == "array" and len(rt[2]) == nbytes
    rep.check(okshape, R, ser.key, "ser-shape", ser.loc(), "%s::serialize builds a %d-byte array literal" % (name, nbytes),
              {"term": terms.fmt(rt)[:200]}, cfg)
    ser_bits = None
    if okshape:
        def env(t):
            m = match(("field", ("deref", ("param", 1)), V("i")), t)
            if m is not None and m["i"] in role_of_idx:
                role = role_of_idx[m["i"]]
                ty = fields_map[role][0]
                return bits.inp(role, int(ty[1:]))
            return None
        ser_bits = []
        for j, bt in enumerate(rt[2]):
            try:
                b = bits.resize(bits.eval_bits(bt, env), 8)
            except bits.BitsError as e:
                b = [None] * 8
                err = str(e)
            want = [x if x == 0 else ("in", x[0], x[1]) for x in exp[j]]
            ok = b == want
            rep.check(ok, R, ser.key, "ser-byte-%d" % j, ser.loc(),
                      "%s::serialize byte %d = %s" % (name, j, describe(exp[j])),
                      {"found": [fmt_slot(x) for x in b], "term": terms.fmt(bt)[:160]}, cfg)
            ser_bits.append(b)
    # ---- deserialize -----------------------------------------------------------------------
    tbd = terms.TermBuilder(des, keep_casts=True)
    rd = tbd.return_term()
    okd = rd[0] == "agg" and rd[1].startswith("adt:" + adtp) and len(rd[2]) == len(adt["variants"][0]["fields"])
    rep.check(okd, R, des.key, "de-shape", des.loc(), "%s::deserialize builds the struct from the byte array" % name,
              {"term": terms.fmt(rd)[:200]}, cfg)
    if okd:
        def envd(t):
            m = match(("index", ("deref", ("param", 1)), ("const", V("j"))), t)
            if m is not None:
                return bits.inp("b%d" % m["j"], 8)
            return None
        # expected field bits: role bit k <- byte j bit k'
        src = {}
        for j, byte in enumerate(exp):
            for k, x in enumerate(byte):
                if x != 0:
                    src[x] = ("in", "b%d" % j, k)
        for role, i in fidx.items():
            ty = fields_map[role][0]
            w = int(ty[1:])
            try:
                b = bits.resize(bits.eval_bits(rd[2][i], envd), w)
            except bits.BitsError as e:
                b = [None] * w
            want = [src.get((role, k), 0) for k in range(w)]
            rep.check(b == want, R, des.key, "de-field-%s" % role, des.loc(),
                      "%s::deserialize field %s = big-endian bytes of the RFC layout, bits above its width zero, reserved byte ignored" % (name, role),
                      {"found": [fmt_slot(x) for x in b][:48], "term": terms.fmt(rd[2][i])[:200]}, cfg)
    return ser, des, adtp


def describe(byte):
    if all(x == 0 for x in byte):
        return "0 (reserved)"
    role = byte[0][0]
    return "%s[%d..%d]" % (role, byte[7][1], byte[0][1])


def fmt_slot(x):
    if x is None:
        return "?"
    if x in (0, 1):
        return str(x)
    return "%s.%d" % (x[1], x[2])


def check_packet(rep, crate, cfg, pid):
    """EncodingPacket: payload id (4 bytes) followed by the symbol bytes, and the inverse"""
    R = "C13-R2"
    if pid is None:
        return
    pser, pdes, pid_adt = pid
    # packet struct: has a field of the payload-id type and a Vec<u8>
    cands = []
    for p, a in crate.adts.items():
        if a["kind"] != "Struct":
            continue
        fs = a["variants"][0]["fields"]
        tys = [f["ty"] for f in fs]
        if len(fs) == 2 and any(t.get("adt") == pid_adt for t in tys) and any(t.get("s") in ("std::vec::Vec<u8>", "alloc::vec::Vec<u8>") for t in tys):
            cands.append((p, a))
    rep.floor(R, len(cands), 1, "packet struct {payload id, Vec<u8>}", cfg)
    for p, a in cands:
        fs = a["variants"][0]["fields"]
        i_pid = [i for i, f in enumerate(fs) if f["ty"].get("adt") == pid_adt][0]
        i_data = 1 - i_pid
        ser = des = None
        for k, f in crate.fns.items():
            if f.f.get("impl_self", {}).get("adt") != p or f.f.get("impl_trait") or f.argc != 1:
                continue
            i0 = f.f["inputs"][0]
            if i0.get("k") == "ref" and i0["to"].get("adt") == p and f.f["output"].get("s", "").endswith("Vec<u8>"):
                ser = f
            if i0.get("k") == "ref" and i0["to"].get("s") == "[u8]" and f.f["output"].get("adt") == p:
                des = f
        rep.floor(R, (ser is not None) + (des is not None), 2, "packet serialize/deserialize", cfg)
        if ser is not None:
            tb = terms.TermBuilder(ser)
            rt = tb.return_term()
            newvec = rt[0] == "call" and isinstance(rt[1], str) and (rt[1].endswith("with_capacity") or rt[1].endswith("Vec::<T>::new"))
            appends = []
            for b in ser.cfg.rpo:
                t = ser.blocks[b]["term"]
                if t["t"] != "call":
                    continue
                ct = tb.call_term(b, t)
                if ct[0] == "call" and ct[2] and ct[2][0] == ("ref", rt):
                    appends.append(ct)
            straight = all(len(ser.cfg.succ[b]) <= 1 for b in ser.cfg.reach)
            pidt = ("call", pser.key, (("ref", ("field", ("deref", ("param", 1)), i_pid)),))
            datat = ("field", ("deref", ("param", 1)), i_data)
            ok1 = len(appends) == 2 and appends[0][1].endswith("extend_from_slice") and appends[0][2][1] in (("ref", pidt), pidt)
            ok2 = False
            if len(appends) == 2:
                a2 = appends[1]
                arg = a2[2][1]
                # accepted idioms: extend(self.data.iter()), extend_from_slice(&self.data)
                iter_of = ("call", "std::slice::<impl [T]>::iter", (("deref*", ("ref", datat)),))
                ok2 = (a2[1].endswith("Extend::extend") and arg in (iter_of, ("call", "std::slice::<impl [T]>::iter", (("ref", datat),)))) or \
                      (a2[1].endswith("extend_from_slice") and arg in (("deref*", ("ref", datat)), ("ref", datat)))
            rep.check(newvec and straight and ok1 and ok2, R, ser.key, "packet-ser-sequence", ser.loc(),
                      "packet serialisation = fresh vector, then the 4 serialised payload-id bytes, then the symbol bytes in order",
                      {"appends": [terms.fmt(x)[:160] for x in appends], "fresh": newvec, "straight_line": straight}, cfg)
        if des is not None:
            tb = terms.TermBuilder(des)
            rt = tb.return_term()
            want_pid = ("call", pdes.key, (("ref", ("agg", "array", tuple(("index", ("deref", ("param", 1)), ("const", i)) for i in range(4)))),))
            okp = rt[0] == "agg" and len(rt[2]) == 2 and rt[2][i_pid] == want_pid
            rest = ("call", "std::ops::Index::index", (("param", 1), ("agg", "adt:std::ops::RangeFrom", (("const", 4),))))
            okd = rt[0] == "agg" and len(rt[2]) == 2 and rt[2][i_data][0] == "call" and rt[2][i_data][2] == (rest,) and \
                rt[2][i_data][1] in ("std::convert::From::from", "std::slice::<impl [T]>::to_vec", "std::borrow::ToOwned::to_owned")
            rep.check(okp, R, des.key, "packet-de-pid", des.loc(), "packet parsing feeds bytes 0..3, in order, to the payload-id parser",
                      {"term": terms.fmt(rt)[:300]}, cfg)
            rep.check(okd, R, des.key, "packet-de-data", des.loc(), "packet parsing copies bytes 4.. as the symbol", {"term": terms.fmt(rt)[:300]}, cfg)


def check_value_domain(rep, crate, cfg, pid):
    """round trip on representable values: ESI < 2^24 is enforced by every constructor of the payload id"""
    R = "C13-R3"
    if pid is None:
        return
    pser, pdes, adtp = pid
    n = 0
    for k, f in crate.fns.items():
        for b in f.blocks:
            if b["cleanup"]:
                continue
            for s in b["stmts"]:
                if s["s"] == "assign" and s["rv"]["r"] == "aggregate" and s["rv"].get("adt") == adtp:
                    n += 1
                    if f.key == pdes.key:
                        rep.ok(R, f.loc(), "%s builds the payload id from 3 bytes (ESI < 2^24 by construction, shown by C13-R1)" % k, None, cfg)
                        continue
                    if f.f.get("impl_derived") or "serde" in k or "_::" in k:
                        rep.ok(R, f.loc(), "%s: derived impl (clone/deserialize of an existing value)" % k, None, cfg)
                        continue
                    tb = terms.TermBuilder(f)
                    conds = tb.path_conditions(b["i"])
                    esi_op = None
                    a = crate.adts[adtp]
                    fi = field_index(a, PID_FIELDS)
                    esi_t = tb.operand(b["i"], None, s["rv"]["ops"][fi["esi"]]) if fi else None
                    ok = any(v and terms.normalise(c) == terms.normalise(("op", "Lt", esi_t, ("const", 1 << 24))) for c, v in conds)
                    rep.check(ok, R, k, "esi-24bit-guard", mir.stmt_loc(s),
                              "%s constructs a payload id only under ESI < 2^24" % k,
                              {"conds": [terms.fmt(c)[:80] for c, v in conds]}, cfg)
    rep.floor(R, n, 2, "construction sites of the payload id", cfg)


def run(rep, crate, cfg):
    pid = check_codec(rep, crate, cfg, "PayloadId", 4, PID_LAYOUT, PID_FIELDS, None)
    check_codec(rep, crate, cfg, "ObjectTransmissionInformation", 12, OTI_LAYOUT, OTI_FIELDS, None)
    check_packet(rep, crate, cfg, pid)
    check_value_domain(rep, crate, cfg, pid)
