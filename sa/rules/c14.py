"""C14 — derived transmission parameters (RFC 6330 4.3).

R2/R3: abstract interpretation of the derivation over the property's own domain: every narrowing
cast, overflow/division assert, unreachable!() and unwrap in the cone is discharged (or reported).
R1: derivation template (terms), see run_template.
"""
from .. import mir, terms, absint
from ..aff import Aff, IntV, norm
from . import c15, ceildiv

K_MAX = 56403
Z_MAX = 255


def find_fn(crate):
    out = []
    for k, f in crate.fns.items():
        if f.f["kind"] != "AssocFn" or f.argc != 3:
            continue
        ins = [i.get("s") for i in f.f.get("inputs", [])]
        if ins == ["u64", "u16", "u64"] and f.f["output"].get("k") == "adt":
            out.append(f)
    return out


def run_ranges(rep, crate, cfg):
    R2, R3 = "C14-R2", "C14-R3"
    fns = find_fn(crate)
    rep.floor(R2, len(fns), 1, "parameter derivation fn(u64 F, u16 P, u64 WS) -> configuration", cfg)
    for fn in fns:
        names = [fn.locals[i + 1].get("name") for i in range(3)]
        merged = {}
        runs = 0
        # case split on the packet size: P < 64 (Al = 1) and P = 8q + r >= 64 (Al = 8, T = 8q)
        cases = [("P<64", None)] + [("P=8q+%d" % r, r) for r in range(8)]
        for cname, r in cases:
            an = absint.Analysis(crate)
            cdfns = ceildiv.install(an, crate)
            state = {}

            def hook(an_, st, path, args, ret, state=state):
                a = args[0]
                ex = a.exact() if a.slo is not None else None
                # Kt = ceil(F / T): the property's domain bounds it by 56403 * 255
                if ex is not None and ex == state.get("F"):
                    ret = ret.with_(nhi=min(ret.nhi, K_MAX * Z_MAX))
                    state["kt_vn"] = ret.vn
                    return ret
                # Z = ceil(Kt / KL(N_max)): a valid configuration exists only if Z <= 255
                if a.vn == state.get("kt_vn") and "z_done" not in state:
                    state["z_done"] = True
                    return ret.with_(nhi=min(ret.nhi, Z_MAX))
                return ret
            an.post_hooks.append(hook)
            st = absint.State()

            def f_b(an_, st_, tj, nm, state=state):
                v = an_.atom_val(nm, 1, K_MAX * Z_MAX * 65535, 64, False)
                state["F"] = v.exact()
                return v

            def ws_b(an_, st_, tj, nm):
                return an_.atom_val(nm, 0, (1 << 64) - 1, 64, False)

            def p_b(an_, st_, tj, nm, r=r):
                if r is None:
                    return an_.atom_val(nm, 1, 63, 16, False)
                q = an_.new_atom("q", 8, (65535 - r) // 8)
                af = Aff(r, {q: 8})
                return IntV(64 + r, 8 * ((65535 - r) // 8) + r, 16, False, af, af)
            an.analyse(fn, {names[0]: f_b, names[1]: p_b, names[2]: ws_b}, st)
            runs += 1
            for key, o in an.obls.items():
                m = merged.get(key)
                if m is None:
                    merged[key] = dict(o, cases=[cname] if not o["ok"] else [])
                else:
                    if not o["ok"]:
                        m["ok"] = False
                        m["cases"].append(cname)
                        if m["detail"] is None:
                            m["detail"] = o["detail"]
                        m["bad_ctx"] = (m["bad_ctx"] + o["bad_ctx"])[:4]
            um = an.unmodelled
        rep.assumptions.append("C14: P in 1..65535, WS any u64, F >= 1; ceil(F/T) <= 56403*255 and derived Z <= 255 "
                               "(the property only speaks about inputs for which a valid configuration exists)")
        n = 0
        refusals = documented_refusals(crate, fn)
        for key, o in sorted(merged.items(), key=lambda kv: (kv[0][0], kv[0][1], str(kv[0][2]))):
            fnk, kind, fp = key
            rule = R3 if kind == "panic" else R2
            n += 1
            if kind == "panic" and not o["ok"] and (fnk, fp) in refusals:
                rep.ok(R3, o["loc"], "%s: explicit refusal [%s] fires only outside the property's domain: %s"
                       % (fnk, fp, refusals[(fnk, fp)]), None, cfg)
                continue
            rep.check(o["ok"], rule, fnk, "%s:%s" % (kind, fp), o["loc"], "%s: %s [%s]" % (fnk, o["msg"], fp),
                      {"cases": o["cases"], "contexts": o["bad_ctx"], "values": o["detail"]} if not o["ok"] else None, cfg)
        rep.floor(R2, n, 10, "cast / assert / panic obligations in the derivation cone", cfg)
        rep.analysed.setdefault("case_splits", {})[cfg] = [c for c, _ in cases]
        rep.analysed.setdefault("unmodelled_" + cfg, um)


def documented_refusals(crate, fn):
    """explicit panics of the derivation whose reaching condition is the negation of a domain condition.
    Domain condition recognised: KL(N_max) >= 1 ("the memory budget admits at least K' = 10")."""
    out = {}
    tb = terms.TermBuilder(fn)
    an = absint.Analysis(crate)
    for blk in fn.blocks:
        if blk["cleanup"] or blk["i"] not in fn.cfg.reach:
            continue
        t = blk["term"]
        if t["t"] != "call" or not (t["target"] is None or an.is_panic_callee(t.get("callee"))):
            continue
        conds = tb.path_conditions(blk["i"])
        if not conds:
            continue
        c, v = terms.canon_cond(conds[0][0], conds[0][1])
        # reaching condition: not (0 < KL(..))  ==  KL(..) <= 0
        m = terms.match(("op", "Le", terms.V("x"), ("const", 0)), c) if v else None
        if m is None:
            continue
        x = m["x"]
        if x[0] == "call" and isinstance(x[1], str) and x[1].startswith(fn.key + "::{closure"):
            msg = an.panic_message(fn, t)
            fp = "%s#%d" % (msg[:80], an._panic_index(fn, blk["i"]))
            out[(fn.key, fp)] = "it is reached only when KL(N_max) = 0, i.e. the memory budget admits no K' at all"
    return out


# ---------------------------------------------------------------------------
# R1: derivation template (RFC 6330 section 4.3)

from ..terms import V, match, fmt


def loop_exit_conds(fn, tb):
    """[(block, cond term, truth value on which the loop is left)] for bool switches inside loops"""
    out = []
    loops = fn.cfg.loops()
    for b in sorted(fn.cfg.reach):
        bc = tb.branch_cond(b)
        if bc is None:
            continue
        c, tt, ft = bc
        for head, body in loops.items():
            if b in body:
                if tt not in body and ft in body:
                    out.append((b, c, True, head))
                elif ft not in body and tt in body:
                    out.append((b, c, False, head))
    return out


def canon(t, crate):
    return terms.simplify(terms.normalise(terms.simplify(terms.inline(terms.simplify(t), crate))))


def strip(t):
    return terms.normalise(terms.strip_casts(t))


def run_template(rep, crate, cfg):
    R = "C14-R1"
    fns = find_fn(crate)
    for fn in fns:
        where = fn.loc()
        tb = terms.TermBuilder(fn)
        rt = canon(tb.return_term(), crate)
        if rt[0] != "agg" or len(rt[2]) != 5:
            rep.bad(R, fn.key, "result-shape", where, "derivation does not end in a 5-field struct literal", {"term": fmt(rt)[:200]}, cfg)
            continue
        F, P, WS = ("param", 1), ("param", 2), ("param", 3)
        f_F, f_T, f_Z, f_N, f_AL = rt[2]
        ALIGN = terms.normalise(("ite", ("op", "Le", ("const", 64), P), ("const", 8), ("const", 1)))
        T = terms.normalise(("op", "Sub", P, ("op", "Rem", P, ALIGN)))

        def chk(cond, fp, what, got=None):
            rep.check(cond, R, fn.key, fp, where, what, {"found": fmt(got)[:300]} if (got is not None and not cond) else None, cfg)
        chk(f_F == F, "F", "transfer length field is the transfer length parameter", f_F)
        chk(strip(f_AL) == ALIGN, "Al", "Al = 8 if P >= 64 else 1", f_AL)
        chk(strip(f_T) == T, "T", "T = P - P mod Al (largest multiple of Al not above P)", f_T)
        # Z = ceil(Kt / KL(N_max))
        KT = ("ceildiv", F, T)
        mz = match(("ceildiv", V("kt"), V("kl")), strip(f_Z))
        chk(mz is not None and mz["kt"] == KT, "Z-shape", "Z = ceil(Kt / KL(N_max)) with Kt = ceil(F/T)", f_Z)
        if mz is None:
            continue
        klcall = mz["kl"]
        okcall = klcall[0] == "call" and isinstance(klcall[1], str) and klcall[1] in crate.fns and \
            crate.fns[klcall[1]].f["kind"] == "Closure" and klcall[2][1][0] == "agg"
        chk(okcall, "KL-is-closure", "KL is computed by a local closure applied to N_max", klcall)
        if not okcall:
            continue
        clpath = klcall[1]
        env = klcall[2][0]
        nmax = strip(klcall[2][1][2][0])
        NMAX = terms.normalise(("op", "Div", T, ("op", "Mul", ALIGN, ALIGN)))
        chk(nmax == NMAX, "N_max", "N_max = floor(T / (SS * Al)) with SS = Al-dependent sub-symbol size (8 or 1)", nmax)
        # --- KL(n) -------------------------------------------------------------------------
        cl = crate.fns[clpath]
        tbc = terms.TermBuilder(cl)
        exits = loop_exit_conds(cl, tbc)
        crets = [t for _, t in tbc.return_terms()]
        formB = None
        if len(exits) == 0 and len(crets) == 1:
            # form B: TABLE.iter().rev()[.map(..)].find(|k'| k' <= budget)[.map(..)].unwrap_or(0)
            from .. import seqs
            n = ("sym", "n")
            body = canon(terms.subst(crets[0], {1: env, 2: n}), crate)
            mB = match(("call", "std::option::Option::<T>::unwrap_or", (V("opt"), V("dflt"))), body)
            pf = seqs.parse_first(crate, mB["opt"]) if mB is not None else None
            if pf is not None:
                formB = (pf, strip(mB["dflt"]), n)
        chk(len(exits) == 1 or formB is not None, "KL-one-scan",
            "KL(n) has one scan loop with one early exit (or is one find over the reversed table)", None)
        if formB is not None:
            pf, dflt, n = formB
            from . import scan as scanmod
            cnt = pf["count"]
            tab = cnt[1] if cnt[0] == "len" else None
            ct = scanmod._const_table(crate, tab) if tab is not None else None
            tabok = ct is not None and ct[0].endswith("SYSTEMATIC_INDICES_AND_PARAMETERS")
            j = ("op", "Sub", ("op", "Sub", cnt, ("const", 1)), seqs.IX)
            key = strip(canon(("field", ("index", tab, j), 0), crate)) if tab is not None else None
            cond = strip(canon(pf["cond"], crate))
            res = strip(canon(pf["result"], crate))
            rev_ok = tabok and terms.find(j, pf["cond"]) is not None
            chk(tabok and rev_ok, "KL-descending-table2", "KL(n) scans Table 2 from the largest K' downwards", cond)
            X = ("ceildiv", T, ("op", "Mul", ALIGN, n))
            want = terms.normalise(("op", "Le", key, ("op", "Div", WS, ("op", "Mul", ALIGN, X)))) if key is not None else None
            chk(cond == want, "KL-condition", "KL(n) accepts the first K' with K' <= floor(WS / (Al * ceil(T / (Al * n))))", cond)
            chk(res == key and dflt == ("const", 0), "KL-result", "KL(n) returns that K' (or 0 when none fits)", res)
        if len(exits) == 1:
            b, c, truth, head = exits[0]
            # instantiate with the environment of the call site and a symbolic n
            n = ("sym", "n")
            inst = lambda t: strip(canon(terms.subst(t, {1: env, 2: n}), crate))
            c = inst(c)
            nxt = terms.find(("call", V("callee", lambda x: isinstance(x, str) and x.endswith("Iterator::next")), V("args")), c)
            from . import scan as scanmod
            src, rev = scanmod._strip_iter(nxt[0]["args"][0]) if nxt else (("other",), False)
            tabok = src[0] == "slice" and scanmod._const_table(crate, src[1]) is not None and \
                scanmod._const_table(crate, src[1])[0].endswith("SYSTEMATIC_INDICES_AND_PARAMETERS")
            chk(tabok and rev, "KL-descending-table2", "KL(n) scans Table 2 from the largest K' downwards", c)
            if nxt:
                row = ("deref", ("field", ("variant", nxt[1], "Some"), 0))
                key = ("field", row, 0)
                X = ("ceildiv", T, ("op", "Mul", ALIGN, n))
                want = terms.normalise(("op", "Le", key, ("op", "Div", WS, ("op", "Mul", ALIGN, X))))
                chk(truth and c == want, "KL-condition",
                    "KL(n) accepts the first K' with K' <= floor(WS / (Al * ceil(T / (Al * n))))", c)
                rts = [inst(t) for t in crets]
                flat = []
                for t in rts:
                    flat.extend(t[1] if t[0] == "phi" else [t])
                chk(key in flat and all(x == key or x == ("const", 0) for x in flat), "KL-result",
                    "KL(n) returns that K' (or 0 when none fits)", rts[0] if rts else None)
        # --- N search ----------------------------------------------------------------------
        exits = [e for e in loop_exit_conds(fn, tb)]
        if len(exits) == 0:
            # form B: N = (1..=N_max).find(|&n| ceil(Kt/Z) <= KL(n)).unwrap_or(N_max [.max(1)])
            from .. import seqs
            nn = strip(f_N)
            mB = match(("call", "std::option::Option::<T>::unwrap_or",
                        (("call", "std::iter::Iterator::find", (V("it"), V("clo"))), V("dflt"))), nn)
            okB = False
            det = nn
            if mB is not None:
                it = mB["it"]
                while it[0] == "ref" or (it[0] == "call" and isinstance(it[1], str) and it[1].endswith("into_iter")):
                    it = it[1] if it[0] == "ref" else it[2][0]
                ok_iter = it[0] == "call" and isinstance(it[1], str) and it[1].endswith("RangeInclusive::<Idx>::new") and \
                    strip(it[2][0]) == ("const", 1) and strip(it[2][1]) == NMAX
                chk(ok_iter, "N-range", "N is searched ascending over 1..=N_max (inclusive)", it)
                n = ("sym", "n")
                body = seqs.apply_closure(crate, mB["clo"], n, arg_by_ref=True)
                c = strip(canon(body, crate)) if body is not None else None
                Z = strip(f_Z)
                m = match(("op", "Le", ("ceildiv", KT, Z), ("call", clpath, (V("env"), ("agg", "tuple", (V("n"),))))), c) if c else None
                chk(m is not None and strip(m["n"]) == n, "N-condition", "the search stops at the first n with ceil(Kt/Z) <= KL(n)", c)
                d = strip(mB["dflt"])
                # N_max >= 1 under the entry assert (P >= Al), so N_max and max(N_max, 1) are the same default
                okd = d == NMAX or d in (("call", "std::cmp::Ord::max", (NMAX, ("const", 1))), ("call", "std::cmp::Ord::max", (("const", 1), NMAX)))
                chk(okd, "N-result", "N is the n at which the search stopped, N_max when it never does", d)
                okB = True
            chk(okB, "N-one-search", "one search (loop with one early exit, or find over 1..=N_max) computes N", det)
            continue
        chk(len(exits) == 1, "N-one-search", "one search loop with one early exit computes N", None)
        if len(exits) == 1:
            b, c, truth, head = exits[0]
            c = strip(canon(c, crate))
            nxt = terms.find(("call", V("callee", lambda x: isinstance(x, str) and x.endswith("Iterator::next")), V("args")), c)
            ok_iter = False
            item = None
            if nxt:
                it = nxt[0]["args"][0]
                while it[0] == "ref" or (it[0] == "call" and isinstance(it[1], str) and it[1].endswith("into_iter")):
                    it = it[1] if it[0] == "ref" else it[2][0]
                ok_iter = it[0] == "call" and isinstance(it[1], str) and it[1].endswith("RangeInclusive::<Idx>::new") and \
                    strip(it[2][0]) == ("const", 1) and strip(it[2][1]) == NMAX
                item = ("field", ("variant", nxt[1], "Some"), 0)
            chk(ok_iter, "N-range", "N is searched ascending over 1..=N_max (inclusive)", c)
            if item is not None:
                Z = strip(f_Z)
                m = match(("op", "Le", ("ceildiv", KT, Z), ("call", clpath, (V("env"), ("agg", "tuple", (V("n"),))))), c)
                okc = m is not None and truth and strip(m["n"]) in (item, ("phi", (("const", 1), item)), ("phi", (item, ("const", 1))))
                chk(okc, "N-condition", "the search stops at the first n with ceil(Kt/Z) <= KL(n)", c)
                nn = strip(f_N)
                okn = nn == item or (nn[0] == "phi" and set(nn[1]) == {("const", 1), item})
                chk(okn, "N-result", "N is the n at which the search stopped", f_N)


# ---------------------------------------------------------------------------
# R5 builder plumbing

def run_plumbing(rep, crate, cfg):
    """C14-R5: the public entry points hand the caller's transfer length, packet size and memory budget to the derivation
    unchanged.  Every call of the derivation passes, per argument, a parameter of the caller, the length of a slice
    parameter, a field of the builder, or a literal default; every `&mut self` setter of the builder stores its argument as
    given; nothing else writes the builder's fields.  (A budget that is clamped, rounded or floored on the way makes the
    derived N/Z those of another budget although the derivation itself is the RFC's.)"""
    R = "C14-R5"
    fns = find_fn(crate)
    if not fns:
        return
    target = fns[0].key
    N = lambda x: terms.normalise(terms.strip_casts(terms.simplify(terms.normalise(x))))
    sites = 0
    builder_fields = {}

    def passthrough(a, g):
        if a[0] == "param" or a[0] == "const":
            return True
        if a[0] == "call" and isinstance(a[1], str) and a[1].endswith("::len") and len(a[2]) == 1 and a[2][0][0] == "param":
            return True
        if a[0] == "field" and a[1] == ("deref", ("param", 1)) and (g.f.get("impl_self") or {}).get("adt"):
            builder_fields.setdefault(g.f["impl_self"]["adt"], set()).add(a[2])
            return True
        return False
    for k, g in sorted(crate.fns.items()):
        if g.f.get("test_build") or k == target:
            continue
        tb = None
        for blk in g.blocks:
            t = blk["term"]
            if blk["cleanup"] or t["t"] != "call" or not (t.get("callee") or "").endswith(target.split("::")[-1]):
                continue
            if (t.get("resolved") or t.get("callee")) != target and not (t.get("callee") or "").endswith(target):
                continue
            tb = tb or terms.TermBuilder(g)
            ct = tb.call_term(blk["i"], t)
            sites += 1
            for i, a in enumerate(ct[2]):
                a = N(a)
                rep.check(passthrough(a, g), R, k, "argument-%d-unchanged" % i, g.loc(),
                          "%s passes argument %d of the derivation (%s) as the caller gave it" % (
                              k.split("::")[-1], i, ("transfer length", "packet size", "memory budget")[i] if i < 3 else "?"),
                          {"term": terms.fmt(a)[:160]}, cfg)
    rep.floor(R, sites, 2, "call sites of the parameter derivation (with_defaults, EncoderBuilder::build)", cfg)
    # setters of the builder: field := parameter; no other writer
    for adt, idxs in builder_fields.items():
        for k, g in sorted(crate.fns.items()):
            if g.f.get("test_build"):
                continue
            for blk in g.blocks:
                if blk["cleanup"]:
                    continue
                for s in blk["stmts"]:
                    if s["s"] != "assign":
                        continue
                    pr = s["lhs"]["proj"]
                    if len(pr) == 2 and pr[0].get("p") == "deref" and pr[1].get("p") == "field" and pr[1].get("adt") == adt \
                            and pr[1].get("i") in idxs:
                        tb = terms.TermBuilder(g)
                        v = N(tb.rvalue(blk["i"], blk["stmts"].index(s), s["rv"]))
                        rep.check(v[0] == "param", R, k, "setter-stores-argument:%s" % pr[1].get("name"), g.loc(),
                                  "%s stores its argument in the builder's field %s unchanged" % (k.split("::")[-1], pr[1].get("name")),
                                  {"term": terms.fmt(v)[:160]}, cfg)
