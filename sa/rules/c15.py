"""C15 — code parameters and tuples are well-formed.

R1: exhaustive check of Table 2 / P1 table rows (compiler-evaluated constants).
R2: lookup schema of the table functions (terms/absint based, see c15_lookup).
"""
from .. import mir, tables


def find(crate):
    t2 = p1 = mx = None
    for c in crate.consts.values():
        if not c["path"].startswith("systematic_constants::"):
            continue
        s = c["ty"]["s"]
        if s.startswith("[(u32, u32, u32, u32, u32);"):
            t2 = c
        elif s.startswith("[(u32, u32);"):
            p1 = c
        elif s == "u32":
            mx = c
    return t2, p1, mx


def table_facts(crate):
    """numeric facts other rules may rely on (only valid when run_tables discharged everything)"""
    t2, p1, mx = find(crate)
    rows = t2["value"]
    p1rows = p1["value"]
    K = [r[0] for r in rows]
    J = [r[1] for r in rows]
    S = [r[2] for r in rows]
    H = [r[3] for r in rows]
    W = [r[4] for r in rows]
    P = [k + s + h - w for k, s, h, w in zip(K, S, H, W)]
    P1 = [r[1] for r in p1rows]
    return dict(K=K, J=J, S=S, H=H, W=W, P=P, P1=P1, MAX=mx["value"])


def run_tables(rep, crate, cfg):
    R = "C15-R1"
    t2, p1, mx = find(crate)
    rep.floor(R, sum(x is not None and x["value"] is not None for x in (t2, p1, mx)), 3,
              "Table 2, P1 table and K'_max constants in systematic_constants", cfg)
    if not (t2 and p1 and mx) or any(x["value"] is None for x in (t2, p1, mx)):
        return None
    rows = t2["value"]
    p1rows = p1["value"]
    MAX = mx["value"]
    loc = mir.sp_loc(t2["sp"])
    T = t2["path"]

    def per_row(name, fp, pred, what):
        bad = [r[0] for r in rows if not pred(r)]
        rep.check(not bad, R, T, fp, loc, "%s for all %d rows" % (what, len(rows)), {"bad_Kprime": bad[:8]}, cfg)

    rep.check(len(rows) == 477, R, T, "row-count", loc, "Table 2 has 477 rows (RFC 6330 5.6)", {"rows": len(rows)}, cfg)
    inc = all(rows[i][0] < rows[i + 1][0] for i in range(len(rows) - 1))
    rep.check(inc, R, T, "kprime-increasing", loc, "K' strictly increasing (first row with K' >= K is the smallest such K')", None, cfg)
    rep.check(rows[0][0] == 10, R, T, "kprime-first", loc, "smallest K' is 10", {"first": rows[0][0]}, cfg)
    rep.check(rows[-1][0] == MAX == 56403, R, T, "kprime-last-is-max", loc,
              "last K' = MAX_SOURCE_SYMBOLS_PER_BLOCK = 56403 (every K <= MAX finds a row)", {"last": rows[-1][0], "MAX": MAX}, cfg)
    per_row("S", "S-prime", lambda r: tables.is_prime(r[2]), "S is prime")
    per_row("W", "W-prime", lambda r: tables.is_prime(r[4]), "W is prime")
    per_row("B", "B-positive", lambda r: r[4] - r[2] >= 1, "B = W - S >= 1")
    per_row("P", "P-ge-H", lambda r: (r[0] + r[2] + r[3] - r[4]) >= r[3] >= 2, "P = K'+S+H-W >= H >= 2")
    per_row("KS", "K+S-ge-W", lambda r: r[0] + r[2] >= r[4], "K'+S >= W")
    per_row("L", "L-fits-u16", lambda r: r[0] + r[2] + r[3] < 65536, "L = K'+S+H < 65536")
    per_row("J", "J-range", lambda r: 53591 + 997 * r[1] + 1 < 2**32 and 10267 * (r[1] + 1) < 2**32,
            "A = 53591+997J (+1) and B = 10267(J+1) fit in u32")
    per_row("W2", "W-ge-4", lambda r: r[4] >= 4, "W >= 4 (so W-2 >= 2 and Rand moduli W-1, W are positive)")
    # P1 table
    rep.check(len(p1rows) == len(rows), R, p1["path"], "p1-row-count", mir.sp_loc(p1["sp"]),
              "P1 table has one row per Table 2 row", {"rows": len(p1rows)}, cfg)
    if len(p1rows) == len(rows):
        bad = [rows[i][0] for i in range(len(rows)) if p1rows[i][0] != rows[i][0]]
        rep.check(not bad, R, p1["path"], "p1-keys", mir.sp_loc(p1["sp"]),
                  "P1 table keys equal Table 2's K' column row by row", {"bad_Kprime": bad[:8]}, cfg)
        bad = []
        for i, r in enumerate(rows):
            P = r[0] + r[2] + r[3] - r[4]
            if p1rows[i][1] != tables.next_prime_ge(P):
                bad.append(r[0])
        rep.check(not bad, R, p1["path"], "p1-smallest-prime", mir.sp_loc(p1["sp"]),
                  "P1 = smallest prime >= P = K'+S+H-W for all rows", {"bad_Kprime": bad[:8]}, cfg)
    rep.analysed.setdefault("tables", [])
    for c in (t2, p1, mx):
        if c["path"] not in rep.analysed["tables"]:
            rep.analysed["tables"].append(c["path"])
    return table_facts(crate)


# ---------------------------------------------------------------------------
# R2: lookup schema

from . import scan as scanmod
from .. import absint
from ..aff import Aff, IntV, norm, le_proved

LOOKUP_ROLES = {
    # function name suffix -> (table kind, value column)
    "extended_source_block_symbols": ("t2", 0),
    "systematic_index": ("t2", 1),
    "num_ldpc_symbols": ("t2", 2),
    "num_hdpc_symbols": ("t2", 3),
    "num_lt_symbols": ("t2", 4),
    "calculate_p1": ("p1", 1),
}
COLNAME = {("t2", 0): "K'", ("t2", 1): "J", ("t2", 2): "S", ("t2", 3): "H", ("t2", 4): "W", ("p1", 1): "P1"}


def find_scans(crate):
    scans = {}
    for k, f in crate.fns.items():
        if f.f["kind"] != "Fn" or f.argc not in (1, 2):
            continue
        if not (k.startswith("systematic_constants::") or k.startswith("base::")):
            continue
        try:
            sc = scanmod.match_scan(f)
        except Exception:
            sc = None
        if sc is not None:
            scans[k] = sc
    # lookups that delegate to a whole-row scan helper
    for k, f in crate.fns.items():
        if k in scans or f.f["kind"] != "Fn" or f.argc != 1 or not k.startswith("systematic_constants::"):
            continue
        try:
            sc = scanmod.match_delegate(f, scans)
        except Exception:
            sc = None
        if sc is not None:
            scans[k] = sc
    return scans


def run_lookup_schema(rep, crate, cfg):
    R = "C15-R2"
    t2, p1, mx = find(crate)
    scans = find_scans(crate)
    tab = [s for s in scans.values() if s["kind"] == "table" and s.get("val_col") is not None]
    idx = [s for s in scans.values() if s["kind"] == "index"]
    rep.floor(R, len(tab), 6, "table lookup functions matching the scan schema", cfg)
    rep.floor(R, len(idx), 1, "index scan (Deg) matching the scan schema", cfg)
    roles_found = {}
    for k, sc in sorted(scans.items()):
        fn = crate.fns[k]
        where = fn.loc()
        short = k.split("::")[-1]
        if sc["kind"] == "table" and sc.get("val_col") is None:
            # whole-row helper: it has no entry assert of its own; every caller must establish the bound
            users = [u for u in scans.values() if u.get("via") == k]
            sites = [(kk, ff, bi, t) for kk, ff in crate.fns.items() for bi, t in ff.calls() if (t.get("resolved") or t.get("callee")) == k]
            okc = bool(sites) and all(any(u["fn"] == kk and u.get("guard") for u in users) for kk, ff, bi, t in sites)
            rep.check(okc, R, k, "row-helper-guarded-at-callers", where,
                      "%s returns the whole table row; each of its %d caller(s) is a lookup that asserts its argument <= MAX first" % (short, len(sites)),
                      {"callers": sorted({kk for kk, _, _, _ in sites})}, cfg)
            rep.check(sc["op"] == "Ge" and sc["key_col"] == 0 and scanmod.first_match_is_smallest(sc), R, k,
                      "first-row-with-key-ge-k", where, "%s returns the first row with K' >= k of an ascending table" % short, None, cfg)
            continue
        ok, why = scanmod.exhaustion_holds(sc)
        rep.check(ok, R, k, "scan-exhaustive", where,
                  "%s: the scan always returns for every argument admitted by its entry assert (%s), so the code "
                  "after the loop is dead" % (short, why), None, cfg)
        if sc["kind"] == "table":
            g = sc["guard"]
            rep.check(g is not None and g["op"] == "Le" and mx is not None and g["bound"] == mx["value"], R, k, "guard-is-max",
                      where, "%s asserts k <= MAX_SOURCE_SYMBOLS_PER_BLOCK before scanning" % short, {"guard": g}, cfg)
            rep.check(sc["op"] == "Ge" and sc["key_col"] == 0 and scanmod.first_match_is_smallest(sc), R, k,
                      "first-row-with-key-ge-k", where,
                      "%s returns a column of the first row with K' >= k of an ascending table (smallest K' >= k)" % short,
                      {"op": sc["op"], "key_col": sc["key_col"], "reversed": sc["rev"]}, cfg)
            role = LOOKUP_ROLES.get(short)
            if role is not None:
                want_tab = t2["path"] if role[0] == "t2" else p1["path"]
                rep.check(sc["table"] == want_tab and sc["val_col"] == role[1], R, k, "role-column", where,
                          "%s reads column %d (%s) of %s" % (short, role[1], COLNAME[role], want_tab.split("::")[-1]),
                          {"table": sc["table"], "val_col": sc["val_col"]}, cfg)
                roles_found[short] = k
        else:
            # Deg: f[30] = 2^20 and the assert v < 2^20; 31 entries equal the RFC's table
            RFC_F = [0, 5243, 529531, 704294, 791675, 844104, 879057, 904023, 922747, 937311, 948962, 958494, 966438,
                     973160, 978921, 983914, 988283, 992138, 995565, 998631, 1001391, 1003887, 1006157, 1008229,
                     1010129, 1011876, 1013490, 1014983, 1016370, 1017662, 1048576]
            full = [None] * sc["lo"] + list(sc["keys"])
            rep.check(sc["lo"] == 1 and sc["hi"] == 31 and list(sc["keys"]) == RFC_F[1:], R, k, "deg-table", where,
                      "Deg scans d = 1..=30 over the RFC 6330 5.3.5.2 degree distribution table f[1..30]",
                      {"lo": sc["lo"], "hi": sc["hi"], "keys_head": list(sc["keys"])[:4]}, cfg)
            rep.check(sc["op"] == "Lt" and scanmod.first_match_is_smallest(sc), R, k, "deg-first-d", where,
                      "Deg returns for the first d with v < f[d]", {"op": sc["op"]}, cfg)
            # result = min(d, W-2)
            from ..terms import V, match
            m = match(("call", V("f", lambda x: isinstance(x, str) and x.endswith("::min")),
                       (V("a"), ("op", "Sub", ("param", 2), ("const", 2)))), sc["ret"])
            m2 = match(("call", V("f", lambda x: isinstance(x, str) and x.endswith("::min")),
                        (("op", "Sub", ("param", 2), ("const", 2)), V("a"))), sc["ret"])
            mm = m or m2
            okd = mm is not None and mm["a"] in (sc["item"], ("cast", "u32", sc["item"]))
            rep.check(okd, R, k, "deg-min-w-2", where, "Deg result is min(d, W - 2) with d the scan index",
                      {"ret": terms_fmt(sc["ret"])[:200]}, cfg)
    rep.floor(R, len(roles_found), 6, "role-named lookup functions (K', J, S, H, W, P1)", cfg)
    return scans


def terms_fmt(t):
    from ..terms import fmt
    return fmt(t)


# ---------------------------------------------------------------------------
# R3: ranges and panic freedom

FORMS = {
    # name -> coefficient per column atom
    "P": {"K'": 1, "S": 1, "H": 1, "W": -1},
    "L": {"K'": 1, "S": 1, "H": 1},
    "B": {"W": 1, "S": -1},
    "K'+S-W": {"K'": 1, "S": 1, "W": -1},
    "P1-P": {"P1": 1, "K'": -1, "S": -1, "H": -1, "W": 1},
    "P-H": {"K'": 1, "S": 1, "W": -1},
}


class Lookups:
    """summaries of the table lookup functions for the interpreter: one atom per (column, argument),
    related by the linear facts that R1 verified row by row on the actual table"""

    def __init__(self, an, crate, scans, facts_tab):
        self.an = an
        self.crate = crate
        self.tab = facts_tab
        self.memo = {}
        self.by_fn = {}
        for k, sc in scans.items():
            if sc["kind"] != "table":
                continue
            short = k.split("::")[-1]
            role = LOOKUP_ROLES.get(short)
            if role is None:
                continue
            self.by_fn[k] = COLNAME[role]
            an.summaries[k] = self.make_handler(k, COLNAME[role], sc)

    def cols_for(self, st, arg):
        an = self.an
        ex = arg.exact() if arg.slo is not None else None
        key = ("e", ex) if ex is not None else ("v", arg.vn)
        if key in self.memo:
            return self.memo[key]
        tag = repr(ex) if ex is not None else "v%d" % arg.vn
        t = self.tab
        rows = range(len(t["K"]))
        # rows that can be selected by the argument; for an exact (shared) argument expression use the
        # declared atom ranges, so that the atoms are valid in every state that uses the same expression
        alo, ahi = arg.nlo, arg.nhi
        if ex is not None:
            decl = absint.Rng(an.atoms, {}, [])
            alo, ahi = max(0, ex._lo(decl)), min(ex._hi(decl), t["MAX"])
        sel = [i for i in rows if (i == 0 or t["K"][i - 1] < ahi) and t["K"][i] >= alo]
        if not sel:
            sel = list(rows)
        cols = {}
        data = {"K'": t["K"], "J": t["J"], "S": t["S"], "H": t["H"], "W": t["W"], "P1": t["P1"]}
        for name, col in data.items():
            vals = [col[i] for i in sel]
            a = an.new_atom("%s(%s)" % (name, tag), min(vals), max(vals))
            cols[name] = a
        for fname, coefs in FORMS.items():
            vals = [sum(c * data[n][i] for n, c in coefs.items()) for i in sel]
            form = Aff(0, {cols[n]: c for n, c in coefs.items()})
            an.facts.append(form - min(vals))
            an.facts.append(-form + max(vals))
        # K' >= k  (first row with key >= k)
        if ex is not None:
            an.facts.append(Aff.atom(cols["K'"]) - ex)
        self.memo[key] = cols
        return cols

    def make_handler(self, path, col, sc):
        bound = sc["guard"]["bound"] if sc.get("guard") else None

        def handler(an, st, fid, fn, t, args, record):
            a = args[0]
            if type(a) is not IntV:
                a = IntV.top(32, False)
            a = norm(a, an.rng_fn(st))
            callee_fn = self.crate.fns[path]
            if bound is not None:
                ok = a.nhi <= bound
                if record:
                    an.oblige("panic", callee_fn, "lookup-arg<=MAX", ok, mir.stmt_loc(t),
                              "%s: argument <= %d (entry assert of the lookup cannot fail)" % (path.split("::")[-1], bound),
                              None if ok else {"arg": repr(a)})
                if a.nlo > bound:
                    return None
                if not ok:
                    a = a.with_(nhi=bound)
            cols = self.cols_for(st, a)
            atom = cols[col]
            lo, hi = an.atoms[atom]
            af = Aff.atom(atom)
            return IntV(lo, hi, 32, False, af, af), st
        return handler


CONE_SUFFIXES = ("rng::rand", "base::deg", "base::intermediate_tuple", "constraint_matrix::enc_indices",
                 "encoder::enc_into", "base::PayloadId::new",
                 "systematic_constants::num_intermediate_symbols", "systematic_constants::num_pi_symbols")


def in_cone(fnkey, extra):
    base = fnkey.split("::{closure")[0]
    return base in CONE_SUFFIXES or base in extra or base.startswith("systematic_constants::")


def run_ranges(rep, crate, cfg, scans, tab):
    """R3: tuple ranges + panic freedom of producing/consuming symbols"""
    R = "C15-R3"
    K_MAX = tab["MAX"]
    X_MAX = (1 << 24) + max(tab["K"]) - 1   # largest ISI reachable from a 24-bit ESI: ESI + (K' - K) < 2^24 + K'
    results = {}

    def mk(lo, hi, bits=32):
        return lambda an, st, tj, nm: an.atom_val(nm, lo, hi, bits, False)

    # --- E1: Tuple[K', X] for the whole hull of (W, J, P1) and every ISI ---------------------------
    it = crate.fns.get("base::intermediate_tuple")
    rep.floor(R, 1 if it is not None else 0, 1, "tuple generator base::intermediate_tuple", cfg)
    if it is None:
        return
    an = absint.Analysis(crate)
    Lookups(an, crate, scans, tab)
    ov = {}
    names = [it.locals[i + 1].get("name") for i in range(it.argc)]
    # parameters by position: (X, W, J, P1)
    rngs = [(0, X_MAX), (min(tab["W"]), max(tab["W"])), (min(tab["J"]), max(tab["J"])), (min(tab["P1"]), max(tab["P1"]))]
    for nm, (lo, hi) in zip(names, rngs):
        ov[nm] = mk(lo, hi)
    ret, st, fid = an.analyse(it, ov)
    atomW, atomP1 = names[1], names[3]
    if ret is None or type(ret) is not absint.AggV or len(ret.fields) != 6:
        rep.bad(R, it.key, "tuple-shape", it.loc(), "intermediate_tuple does not return a 6-tuple on a normal path", None, cfg)
    else:
        rng = an.rng_fn(st)
        d, a, b, d1, a1, b1 = [norm(x, rng) if type(x) is IntV else None for x in ret.fields]
        W = IntV(rngs[1][0], rngs[1][1], 32, False, Aff.atom(atomW), Aff.atom(atomW))
        P1 = IntV(rngs[3][0], rngs[3][1], 32, False, Aff.atom(atomP1), Aff.atom(atomP1))
        one = IntV.const(1, 32)

        def post(name, cond, what, vals):
            rep.check(cond, R, it.key, "post:" + name, it.loc(), "Tuple[K',X] for all (W,J,P1) in the table hull and all X < 2^24+K'_max: " + what,
                      {"abstract": vals}, cfg)
        post("d", d is not None and d.nlo >= 1 and d.nhi <= 30 and le_proved(d, absint.sub(W, IntV.const(2, 32)), rng),
             "1 <= d <= min(30, W-2)", repr(d))
        post("a", a is not None and a.nlo >= 1 and le_proved(a, W, rng, strict=True), "1 <= a < W", repr(a))
        post("b", b is not None and b.nlo >= 0 and le_proved(b, W, rng, strict=True), "0 <= b < W", repr(b))
        post("d1", d1 is not None and d1.nlo >= 2 and d1.nhi <= 3, "d1 in {2,3}", repr(d1))
        post("a1", a1 is not None and a1.nlo >= 1 and le_proved(a1, P1, rng, strict=True), "1 <= a1 < P1", repr(a1))
        post("b1", b1 is not None and b1.nlo >= 0 and le_proved(b1, P1, rng, strict=True), "0 <= b1 < P1", repr(b1))
    results["E1"] = an

    # --- E2: repair packets of a block encoder ------------------------------------------------------
    drivers = []
    rp = [f for k, f in crate.fns.items() if k.endswith("SourceBlockEncoder::repair_packets")]
    rep.floor(R, len(rp), 1, "SourceBlockEncoder::repair_packets", cfg)
    for f in rp:
        an2 = absint.Analysis(crate)
        Lookups(an2, crate, scans, tab)
        st = absint.State()
        args = an2.entry_args(st, f, {
            f.locals[2].get("name"): mk(0, 1 << 24),
            f.locals[3].get("name"): mk(0, 1 << 24),
        })
        # struct invariant: number of source symbols K <= 56403 (every constructor passes through
        # extended_source_block_symbols(K), which asserts it)
        selfobj = st.heap[args[0].target[1]]
        K = None
        for i, fv in enumerate(selfobj.fields):
            if type(fv) is absint.SliceV:
                o = st.heap[fv.obj]
                katom = o.len.exact().single()[0]
                an2.atoms[katom] = (0, K_MAX)
                newlen = IntV(0, K_MAX, 64, False, o.len.slo, o.len.shi, o.len.vn)
                o2 = o.copy()
                o2.len = newlen
                st.heap[fv.obj] = o2
                nf = list(selfobj.fields)
                nf[i] = absint.SliceV(fv.obj, newlen, fv.mut)
                so = selfobj.copy()
                so.fields = nf
                st.heap[args[0].target[1]] = so
                K = katom
                break
        if K is None:
            rep.bad(R, f.key, "self-shape", f.loc(), "cannot find the source symbol vector in SourceBlockEncoder", None, cfg)
            continue
        s_at = args[1].exact().single()[0]
        n_at = args[2].exact().single()[0]
        # property domain: K + s + n <= 2^24
        an2.facts.append(Aff(1 << 24, {K: -1, s_at: -1, n_at: -1}))
        an2.stack.append((f.key, f.loc()))
        an2.run_fn(f, args, st)
        an2.stack.pop()
        drivers.append((f.key, an2))
        rep.assumptions.append("C15-R3/E2: K = len(source_symbols) <= 56403 (struct invariant) and K + s + n <= 2^24 (domain of the property)")
    # --- E3: decoder side rebuild ------------------------------------------------------------------
    rb = [f for k, f in crate.fns.items() if k.endswith("SourceBlockDecoder::rebuild_source_symbol_into")]
    rep.floor(R, len(rb), 1, "SourceBlockDecoder::rebuild_source_symbol_into", cfg)
    for f in rb:
        an3 = absint.Analysis(crate)
        lk = Lookups(an3, crate, scans, tab)
        st = absint.State()
        # params struct holds (W, P, J, P1) of one K: build it from the lookups of a symbolic K
        Kv = an3.atom_val("K", 0, K_MAX, 32, False)
        cols = lk.cols_for(st, Kv)

        def colv(n):
            lo, hi = an3.atoms[cols[n]]
            return IntV(lo, hi, 32, False, Aff.atom(cols[n]), Aff.atom(cols[n]))
        W, J, P1v = colv("W"), colv("J"), colv("P1")
        Pv = IntV(0, 1 << 16, 32, False, Aff(0, {cols["K'"]: 1, cols["S"]: 1, cols["H"]: 1, cols["W"]: -1}),
                  Aff(0, {cols["K'"]: 1, cols["S"]: 1, cols["H"]: 1, cols["W"]: -1}))
        Pv = norm(Pv, an3.rng_fn(st))

        def params_builder(an, st_, tj, nm, W=W, Pv=Pv, J=J, P1v=P1v):
            adt = crate.adts.get(tj.get("adt"))
            names = [fl["name"] for fl in adt["variants"][0]["fields"]]
            vals = {"lt_symbols": W, "pi_symbols": Pv, "sys_index": J, "p1": P1v}
            return absint.AggV("struct", tj.get("adt"), [vals.get(n, absint.TOP) for n in names])
        ov = {}
        for i in range(f.argc):
            l = f.locals[i + 1]
            if l["ty"].get("k") == "adt" and l["ty"]["adt"].endswith("EncodingParameters"):
                ov[l.get("name")] = params_builder
            elif l["ty"].get("k") == "int":
                # source symbol id: an ISI below K <= K'
                ov[l.get("name")] = mk(0, K_MAX)
        args = an3.entry_args(st, f, ov)
        an3.stack.append((f.key, f.loc()))
        an3.run_fn(f, args, st)
        an3.stack.pop()
        drivers.append((f.key, an3))
        rep.assumptions.append("C15-R3/E3: EncodingParameters = (W, P, J, P1) of one K <= 56403 (as built by try_pi_decode*)")

    # --- collect obligations of the cone -----------------------------------------------------------
    extra = {name for name, _ in drivers}      # the driver functions' own ESI/ISI arithmetic and refusals
    merged = {}
    for name, anx in [("E1", an)] + drivers:
        for key, o in anx.obls.items():
            fnk = key[0]
            if not in_cone(fnk, extra):
                continue
            m = merged.get(key)
            if m is None:
                merged[key] = dict(o, entries=[name])
            else:
                m["ok"] = m["ok"] and o["ok"]
                m["entries"].append(name)
                m["bad_ctx"] = (m["bad_ctx"] + o["bad_ctx"])[:4]
                if m["detail"] is None:
                    m["detail"] = o["detail"]
    # panics in functions matched by the scan schema are discharged by R2's exhaustion lemma
    scan_ok = {k for k, sc in scans.items() if scanmod.exhaustion_holds(sc)[0]}
    n = 0
    for key, o in sorted(merged.items(), key=lambda kv: (kv[0][0], kv[0][1], str(kv[0][2]))):
        fnk, kind, fp = key
        if kind == "panic" and fnk in scan_ok and ("unreachable" in str(fp)):
            rep.ok(R, o["loc"], "%s: code after the table scan is dead (exhaustion lemma, C15-R2)" % fnk, None, cfg)
            continue
        if kind == "cast" and o["ok"]:
            rep.ok(R, o["loc"], "%s: %s" % (fnk, o["msg"]), None, cfg)
            continue
        n += 1
        what = "%s: %s [%s]" % (fnk, o["msg"], fp)
        detail = {"contexts": o["bad_ctx"], "values": o["detail"]} if not o["ok"] else None
        rep.check(o["ok"], R, fnk, "%s:%s" % (kind, fp), o["loc"], what, detail, cfg)
    rep.floor(R, n, 30 if crate.d["overflow_checks"] else 10, "panic/overflow/bounds obligations in the tuple/Enc cone", cfg)
    um = {}
    for _, anx in [("E1", an)] + drivers:
        for k, v in anx.unmodelled.items():
            um[k] = um.get(k, 0) + v
    rep.analysed.setdefault("unmodelled_calls_" + cfg, um)
    return merged
