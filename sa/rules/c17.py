"""C17 — the shared plan cache is transparent and bounded under concurrency: lock discipline
and the critical-section invariant  keys(plans) == set(queue)  and  |plans| <= CAP.

Induction behind R3 (holds at every unlock, hence under every interleaving of critical sections):
  base: both containers empty.  step, section containing plans.insert(k, v):
   (a) an earlier plans.get(&k) in the SAME section returned None  => k is a new key, not in the queue either;
   (b) the path passed `plans.len() >= CAP`; if true, queue.pop_front() = Some(e) removes that same e from the
       map => one key fewer in both; afterwards |plans| <= CAP - 1;
   (c) queue.push_back(k) exactly once and plans.insert(k, ..) exactly once => one key more in both, |plans| <= CAP.
  Sections without insert/remove/push/pop leave the invariant untouched (R1: nothing else touches the fields).
"""
from .. import mir, terms, loops
from ..terms import V, match, fmt
from . import dec

N = dec.N
P = lambda i: ("param", i)


def find_cache(crate):
    """the guarded struct: type parameter of the Mutex inside the crate's OnceLock<Mutex<..>> static"""
    statics = [c for c in crate.consts.values() if c["kind"].startswith("Static") and "OnceLock<std::sync::Mutex<" in c["ty"]["s"]]
    out = []
    for s in statics:
        inner = s["ty"]["s"].split("Mutex<", 1)[1].rstrip(">")
        out.append((s, inner))
    return out


def sections(f):
    """critical sections: [(guard local, def block, set of blocks in which the guard is live)]"""
    out = []
    for l, loc in enumerate(f.locals):
        if loc["ty"].get("k") != "adt" or not loc["ty"].get("adt", "").endswith("MutexGuard"):
            continue
        defs = []
        for b in f.blocks:
            if b["cleanup"]:
                continue
            t = b["term"]
            if t["t"] == "call" and t["dest"]["l"] == l and not t["dest"]["proj"] and t.get("target") is not None:
                defs.append((b["i"], t["target"]))
            for s in b["stmts"]:
                if s["s"] == "assign" and s["lhs"]["l"] == l and not s["lhs"]["proj"]:
                    defs.append((b["i"], b["i"]))
        drops = {b["i"] for b in f.blocks if not b["cleanup"] and b["term"]["t"] == "drop" and b["term"]["p"]["l"] == l
                 and not b["term"]["p"]["proj"]}
        moved = False
        handoffs = set()
        for b in f.blocks:
            if b["cleanup"]:
                continue
            for s_ in b["stmts"]:
                if s_["s"] == "assign" and s_["rv"]["r"] == "use" and s_["rv"]["a"].get("o") == "move" and \
                        s_["rv"]["a"].get("l") == l and not s_["rv"]["a"]["proj"]:
                    drops.add(b["i"])      # the guard moves into another local, which has its own section
                    moved = True
            tt = b["term"]
            if tt["t"] == "call" and any(a.get("o") == "move" and a.get("l") == l and not a.get("proj") for a in tt["args"]):
                drops.add(b["i"])          # drop(guard) / guard handed to a callee by value
                moved = True
                if not (tt.get("callee") or "").endswith("mem::drop"):
                    handoffs.add(b["i"])   # the callee runs with the lock held: its call is checked like work under the lock
        # drop flags: when the guard is moved on some path, its scope-end drop is guarded by `switchInt(flag)`; while the guard
        # is held the flag is set, so from a held state only the edge to the drop is feasible
        flag_edge = {}
        for b in f.blocks:
            if b["cleanup"] or b["term"]["t"] != "switch":
                continue
            d = b["term"]["discr"]
            if d.get("o") not in ("copy", "move") or d["proj"] or f.locals[d["l"]]["ty"].get("k") != "bool" or f.locals[d["l"]].get("user"):
                continue
            tgts = [tg for _, tg in b["term"]["arms"]] + [b["term"]["otherwise"]]
            to_drop = [tg for tg in tgts if tg in drops and f.blocks[tg]["term"]["t"] == "drop"]
            if len(to_drop) == 1 and len(set(tgts)) == 2:
                flag_edge[b["i"]] = to_drop[0]
        # moved out (returned / passed on) counts as end of our knowledge: treat like a drop site
        for db, start in defs:
            live = set()
            st = [start]
            while st:
                x = st.pop()
                if x in live:
                    continue
                live.add(x)
                if x in drops:
                    continue
                if x in flag_edge:
                    st.append(flag_edge[x])
                    continue
                st.extend(f.cfg.succ[x])
            out.append((l, db, live, drops - handoffs))
    return out


def opt_atom(c, v):
    """canonical form of a test on an Option discriminant: (("is-some", X), truth)"""
    if c[0] == "switch-other":
        d = c[1]
        arms = c[2]
        if d[0] == "discr" and tuple(arms) == (1,):
            return ("is-some", d[1]), (not v)
        if d[0] == "discr" and tuple(arms) == (0,):
            return ("is-some", d[1]), v
    m = match(("op", "Eq", ("const", V("k")), ("discr", V("x"))), c)
    if m is not None and m["k"] in (0, 1):
        return ("is-some", m["x"]), (v if m["k"] == 1 else not v)
    return c, v


def conds(ls, blk):
    out = []
    for cj in dec.conds_of(ls, blk):
        out.append(frozenset(opt_atom(c, v) for c, v in cj))
    return terms.simplify_dnf(out)


def run(rep, crate, cfg):
    R1, R2, R3, R4 = "C17-R1", "C17-R2", "C17-R3", "C17-R4"
    caches = find_cache(crate)
    std = "feature=std" in crate.d["cfg"]
    if not std:
        rep.ok(R1, "-", "no_std build: the plan cache does not exist (every encoder solves directly)", None, cfg)
        return
    rep.floor(R1, len(caches), 1, "static OnceLock<Mutex<cache>>", cfg)
    rep.check(len(caches) == 1, R1, "encoder", "single-static", "-", "exactly one process-wide cache static exists", {"n": len(caches)}, cfg)
    if not caches:
        return
    st, cache_ty = caches[0]
    adt = crate.adts.get(cache_ty)
    rep.check(adt is not None and len(adt["variants"][0]["fields"]) == 2, R1, cache_ty, "cache-shape", "-",
              "the cache is a struct of a map and a queue", None, cfg)
    if adt is None:
        return
    fields = adt["variants"][0]["fields"]
    i_map = [i for i, f in enumerate(fields) if "HashMap<" in f["ty"]["s"] or "BTreeMap<" in f["ty"]["s"]]
    i_q = [i for i, f in enumerate(fields) if "VecDeque<" in f["ty"]["s"] or "Vec<" in f["ty"]["s"]]
    if not (i_map and i_q):
        rep.bad(R1, cache_ty, "cache-shape", "-", "cache fields are not (map, queue)", None, cfg)
        return
    i_map, i_q = i_map[0], i_q[0]
    cap = [c for c in crate.consts.values() if c["path"].startswith("encoder::") and c["ty"]["s"] == "usize" and "CACHE" in c["path"].upper()
           and "CAPACITY" in c["path"].upper()]
    rep.floor(R3, len(cap), 1, "cache capacity constant", cfg)
    CAP = cap[0]["value"] if cap else None
    # R1: who touches the cache fields
    users = []
    for k, f in crate.fns.items():
        touched = False
        for blk in f.blocks:
            if blk["cleanup"]:
                continue
            for node in blk["stmts"] + [blk["term"]]:
                from ..absint import places_of
                for p in places_of(node):
                    for e in p["proj"]:
                        if e["p"] == "field" and e.get("adt") == cache_ty:
                            touched = True
        if touched:
            users.append(f)
    # wrappers that return with the lock held (a function whose return type is the guard) acquire the lock for their caller;
    # the functions that HOLD critical sections are those with a guard local that do not hand it on
    def returns_guard(f):
        t0 = f.locals[0]["ty"] if f.locals else {}
        return t0.get("k") == "adt" and t0.get("adt", "").endswith("MutexGuard")
    acquirers = [f for f in crate.fns.values() if returns_guard(f)]
    lockers = [f for f in crate.fns.values() if not returns_guard(f) and f.f["kind"] in ("Fn", "AssocFn") and sections(f)]
    rep.floor(R1, sum(1 for f in list(crate.fns.values()) if any((t.get("callee") or "").endswith("Mutex::<T>::lock") for _, t in f.calls())),
              1, "calls of Mutex::lock in the crate", cfg)
    rep.floor(R1, len(lockers), 1, "functions that lock the cache mutex", cfg)
    for f in users:
        derived = bool(f.f.get("impl_derived"))
        ok = derived or f in lockers
        rep.check(ok, R1, f.key, "field-access-under-lock", f.loc(),
                  "%s touches the cache's fields and is a function that holds the lock (or the derived Default)" % f.key.split("::")[-1], None, cfg)
    # forbidden callees under the lock: anything that can reach plan generation, the solver or the lock itself
    graph = {}
    for k, f in crate.fns.items():
        outs = set()
        for _, t in f.calls():
            r = t.get("resolved") or t.get("callee")
            if r in crate.fns:
                outs.add(r)
            elif t.get("trait") and t.get("resolved") is None:
                pass
        graph[k] = outs
    targets = {k for k in crate.fns if k.endswith("SourceBlockEncodingPlan::generate") or "fused_inverse_mul_symbols" in k
               or k.endswith("gen_intermediate_symbols")}
    targets |= {f.key for f in lockers} | {f.key for f in acquirers}
    reach_t = set(targets)
    changed = True
    while changed:
        changed = False
        for k, outs in graph.items():
            if k not in reach_t and outs & reach_t:
                reach_t.add(k)
                changed = True
    for f in lockers:
        where = f.loc()

        def sink(ct, t):
            if ct[0] == "call" and isinstance(ct[1], str):
                return ct[1].split("::")[-1]
            return None
        ls = loops.LoopSummary(f, sink)
        secs = sections(f)
        rep.floor(R2, len(secs), 2, "critical sections in %s" % f.key.split("::")[-1], cfg)
        blk_of_call = {}
        for bi, t in f.calls():
            blk_of_call.setdefault(bi, []).append(t)
        for n, (gl, db, live, drops) in enumerate(secs):
            bad = []
            for bi in sorted(live):
                if bi in drops:
                    continue
                for t in blk_of_call.get(bi, []):
                    callee = t.get("resolved") or t.get("callee") or ""
                    if callee in reach_t or callee.endswith("Mutex::<T>::lock"):
                        bad.append(callee.split("::")[-1])
            rep.check(not bad, R2, f.key, "no-work-under-lock#%d" % n, where,
                      "critical section %d performs no plan generation, no solve and does not take the lock again" % n,
                      {"calls": bad}, cfg)
            # every path out of the section releases the guard (drop) before the function returns or re-locks
            leaks = [b for b in live if f.blocks[b]["term"]["t"] == "return" and b not in drops]
            rep.check(not leaks, R2, f.key, "guard-released#%d" % n, where, "the guard of section %d is dropped on every path to a return" % n, None, cfg)
        # --- R3 / R4 on the section that inserts ---
        ev = {}
        for e in ls.events:
            ev.setdefault(e["sink"], []).append(e)
        K = P(1)

        def guard_of(e):
            for n, (gl, db, live, drops) in enumerate(secs):
                if e["block"] in live and e["block"] not in drops:
                    return n
            return None
        ins = [e for e in ev.get("insert", []) if "HashMap" in "".join(t.get("callee", "") for t in blk_of_call.get(e["block"], []))]
        rep.check(len(ins) == 1, R3, f.key, "one-insert", where, "exactly one insertion into the plan map", {"n": len(ins)}, cfg)
        if len(ins) != 1:
            continue
        I = ins[0]
        sec = guard_of(I)
        rep.check(sec is not None, R3, f.key, "insert-under-lock", where, "the insertion happens inside a critical section", None, cfg)
        if sec is None:
            continue
        gl, db, live, drops = secs[sec]
        MAP = N(I["args"][0])
        dnf = conds(ls, I["block"])
        # (a) double-checked: get(&k) in the same section returned None
        gets = [e for e in ev.get("get", []) if N(e["args"][0]) == MAP and e["block"] in live]
        oka = False
        if len(gets) == 1:
            g = gets[0]
            gt = N(ls.canon(ls.tb.call_term(g["block"], f.blocks[g["block"]]["term"])))
            oka = N(g["args"][1]) == ("ref", K) and all((("is-some", gt), False) in cj for cj in dnf) and f.cfg.dominates(g["block"], I["block"])
        rep.check(oka, R3, f.key, "double-checked-insert", where,
                  "on every path to the insertion an earlier plans.get(&k) in the same critical section returned None (k is new)",
                  {"gets_in_section": len(gets)}, cfg)
        # (b) eviction test on every path, operator >=, capacity constant
        LEN = None
        for e in ev.get("len", []):
            if N(e["args"][0]) == MAP and e["block"] in live:
                LEN = N(ls.canon(ls.tb.call_term(e["block"], f.blocks[e["block"]]["term"])))
        A = N(("op", "Le", ("const", CAP), LEN)) if (LEN is not None and CAP is not None) else None
        okb = A is not None and all(any(c == A for c, v in cj) or any(dec.neg_of(A) == c for c, v in cj) for cj in dnf)
        rep.check(okb, R3, f.key, "eviction-test", where,
                  "every path to the insertion evaluates plans.len() >= CAPACITY (operator >=, the capacity constant %s)" % CAP,
                  {"conditions": sorted({fmt(c)[:80] for cj in dnf for c, v in cj if c[0] == "op"})}, cfg)
        pops = [e for e in ev.get("pop_front", []) if e["block"] in live]
        rems = [e for e in ev.get("remove", [])]
        okr = False
        if len(pops) == 1 and len(rems) == 1 and A is not None:
            pt = N(ls.canon(ls.tb.call_term(pops[0]["block"], f.blocks[pops[0]["block"]]["term"])))
            QUEUE = N(pops[0]["args"][0])
            r = rems[0]
            rd = conds(ls, r["block"])
            evicted = ("field", ("variant", pt, "Some"), 0)
            okr = N(r["args"][0]) == MAP and N(r["args"][1]) in (("ref", evicted), evicted) and r["block"] in live and \
                all(dec.must([cj], A, True) and (("is-some", pt), True) in cj for cj in rd) and \
                all(dec.must([cj], A, True) for cj in conds(ls, pops[0]["block"]))
            # whenever the test is true and a key was popped, the path passes the removal
            for cj in dnf:
                if dec.must([cj], A, True) and (("is-some", pt), True) in cj:
                    okr = okr and f.cfg.dominates(pops[0]["block"], r["block"])
        rep.check(okr, R3, f.key, "evict-removes-popped-key", where,
                  "when the map is full the oldest key is popped from the queue and exactly that key is removed from the map; "
                  "pop/remove happen nowhere else", {"pops": len(pops), "removes": len(rems)}, cfg)
        # (c) push_back(k) once, before the insert, same section; nowhere else in the crate
        pushes = [e for e in ev.get("push_back", [])]
        okc = len(pushes) == 1 and pushes[0]["block"] in live and f.cfg.dominates(pushes[0]["block"], I["block"]) and \
            N(pushes[0]["args"][1]) == K and (not pops or N(pushes[0]["args"][0]) == N(pops[0]["args"][0]))
        rep.check(okc, R3, f.key, "push-once", where, "queue.push_back(k) happens exactly once on every path to the insertion, for the same k",
                  {"pushes": len(pushes)}, cfg)
        # R4 key / value consistency
        val = N(I["args"][2])
        gen = ("call", V("g", lambda x: isinstance(x, str) and x.endswith("SourceBlockEncodingPlan::generate")), (K,))
        okv = N(I["args"][1]) == K and terms.find(gen, val) is not None
        rep.check(okv, R4, f.key, "insert-key-value", where, "the value cached under k is (an Arc of) generate(k)", {"value": fmt(val)[:100]}, cfg)
        # all look-ups use &k; hits return a clone of the value found under k
        allgets = ev.get("get", [])
        okg = len(allgets) >= 2 and all(N(e["args"][1]) == ("ref", K) for e in allgets)
        rep.check(okg, R4, f.key, "lookups-by-k", where, "both look-ups search for the requested symbol count", None, cfg)
        sites = dec.return_sites(f, ls)
        okret = True
        for b, t, d in sites:
            if terms.find(gen, t) is not None:
                continue
            # a hit returns a clone of the value found under k: clone(get(..)), get(..).map(Arc::clone), get(..).cloned()
            gts = [N(ls.canon(ls.tb.call_term(e["block"], f.blocks[e["block"]]["term"]))) for e in allgets]

            def from_get(x, cloned=False):
                if x in gts:
                    return cloned
                if x[0] in ("ref", "deref", "deref*", "field", "variant"):
                    return from_get(x[1], cloned)
                if x[0] == "call" and isinstance(x[1], str) and x[2]:
                    sh = x[1].split("::")[-1]
                    if sh in ("clone", "cloned"):
                        return from_get(x[2][0], True)
                    if sh == "map" and len(x[2]) == 2 and "clone" in repr(x[2][1]).lower():
                        return from_get(x[2][0], True)
                return False
            okret = okret and from_get(N(t))
        rep.check(okret and len(sites) >= 3, R4, f.key, "returns", where,
                  "every return is either the freshly generated plan for k or a clone of the plan found under k", {"sites": len(sites)}, cfg)
    # the only consumer: key == number of source symbols of the block being encoded
    cons = []
    for k, f in crate.fns.items():
        for bi, t in f.calls():
            if (t.get("resolved") or t.get("callee") or "") in [x.key for x in lockers]:
                cons.append((f, bi, t))
    rep.floor(R4, len(cons), 1, "consumers of the cached plans", cfg)
    for f, bi, t in cons:
        tb = terms.TermBuilder(f)
        key = tb.operand(bi, "T", t["args"][0])
        # a consumer that hands the plan to with_encoding_plan is covered by that function's own count assertion
        # (C18-R4 count-check): a plan for a different count is refused there, whatever key was asked for
        handed = False
        mine = tb.call_term(bi, t)
        for bj, t2 in f.calls():
            ct2 = tb.call_term(bj, t2)
            if ct2[0] == "call" and isinstance(ct2[1], str) and ct2[1].endswith("SourceBlockEncoder::with_encoding_plan") and \
                    terms.find(mine, ct2[2][-1]) is not None:
                handed = True
        if handed:
            rep.ok(R4, mir.stmt_loc(t), "%s passes the cached plan to with_encoding_plan, which refuses a plan made for another symbol count" %
                   f.key.split("::")[-1], None, cfg)
            continue
        m = match(("cast", "u16", ("call", V("len", lambda x: isinstance(x, str) and x.endswith("::len")), (V("v"),))), key)
        conds_ = [terms.canon_cond(N(c), v) for c, v in tb.path_conditions(bi)]
        guard = m is not None and any(v and c == N(("op", "Le", ("call", m["len"], (m["v"],)), ("const", 65535))) for c, v in conds_)
        rep.check(m is not None and guard, R4, f.key, "consumer-key", mir.stmt_loc(t),
                  "%s asks for the plan of exactly source_symbols.len(), asserted to fit in u16 before the cast" % f.key.split("::")[-1],
                  {"key": fmt(key)[:100]}, cfg)
        if m is not None:
            # the plan is replayed on those same symbols
            used = False
            for bj, t2 in f.calls():
                ct = tb.call_term(bj, t2)
                if ct[0] == "call" and isinstance(ct[1], str) and ct[1].endswith("gen_intermediate_symbols_with_plan"):
                    a0 = ct[2][0]
                    src = m["v"]
                    while src[0] in ("ref", "deref", "deref*"):
                        src = src[1]
                    used = terms.find(src, a0) is not None
            rep.check(used, R4, f.key, "consumer-replay", f.loc(), "the plan is replayed on the symbols whose count was the key", None, cfg)
