"""C18 — the repair stream is addressed consistently (fountain property): structural clauses."""
from .. import mir, terms, loops
from ..terms import V, match, fmt
from . import c04, dec

N = dec.N
P = lambda i: ("param", i)


def run(rep, crate, cfg):
    # R1/R2: one packet = f(block, start + i); numbering  (shared with C04-R5)
    c04.run_isi(rep, crate, cfg, R="C18-R1")
    run_sources(rep, crate, cfg)
    run_order(rep, crate, cfg)
    run_plans(rep, crate, cfg)


def run_sources(rep, crate, cfg):
    R = "C18-R2"
    sp = [f for k, f in crate.fns.items() if k.endswith("SourceBlockEncoder::source_packets")]
    rep.floor(R, len(sp), 1, "SourceBlockEncoder::source_packets", cfg)
    for f in sp:
        adt = c04.struct_of_self(f)
        i_sbn = c04.field_by_type(crate, adt, lambda fl: fl["ty"]["s"] == "u8")
        i_src = c04.field_by_type(crate, adt, lambda fl: fl["ty"].get("adt", "").endswith("Vec"))
        # the returned vector in comprehension normal form (loop + push and iterator chains give the same segments)
        from .. import seqs
        SELF = ("deref", P(1))
        SRC = ("field", SELF, i_src)
        segs, problems = seqs.returned_segments(crate, f, lambda ls: (lambda blk: dec.conds_of(ls, blk)))
        segs = [seqs.norm_seg(g) for g in segs]
        IX = seqs.IX
        det = {"segments": [{"count": fmt(g["count"])[:80], "value": fmt(g["value"])[:200], "cond": fmt(g["cond"])[:80] if g["cond"] else None}
                            for g in segs], "problems": problems}
        okr = not problems and len(segs) == 1 and segs[0]["count"] == ("len", SRC) and segs[0]["cond"] is None
        rep.check(okr, R, f.key, "range-0-K", f.loc(), "source packets are produced for i in 0..K (K = number of source symbols), in order, none skipped",
                  det, cfg)
        okc = False
        if okr:
            v = segs[0]["value"]
            m = match(("call", "base::EncodingPacket::new", (("call", "base::PayloadId::new", (V("sbn"), V("esi"))), V("data"))), v)
            if m is not None:
                data = m["data"]
                sym = terms.find(("index", SRC, IX), data)
                # the bytes are those of symbol ix: a chain of byte accessors / copies around source_symbols[ix]
                accessors = True
                x = data
                while x != ("index", SRC, IX):
                    if x[0] in ("ref", "deref", "deref*"):
                        x = x[1]
                    elif x[0] == "call" and isinstance(x[1], str) and x[1].split("::")[-1] in ("as_bytes", "to_vec", "clone", "to_owned", "into", "from", "index", "as_ref") and len(x[2]) >= 1:
                        x = x[2][0]
                    else:
                        accessors = False
                        break
                okc = N(m["sbn"]) == ("field", SELF, i_sbn) and N(m["esi"]) == IX and sym is not None and accessors
        rep.check(okc, R, f.key, "source-packet-i", f.loc(),
                  "source packet i carries (this block's number, ESI = i) and the bytes of source symbol i", det, cfg)


def run_order(rep, crate, cfg):
    R = "C18-R3"
    fs = [f for k, f in crate.fns.items() if k.endswith("Encoder::get_encoded_packets") and f.f["kind"] == "AssocFn"]
    if not fs:
        rep.ok(R, "-", "no object-level packet list in this configuration", None, cfg)
        return
    for f in fs:
        from .. import seqs
        adt = c04.struct_of_self(f)
        i_blocks = c04.field_by_type(crate, adt, lambda fl: fl["ty"].get("adt", "").endswith("Vec"))
        SELF = ("deref", P(1))
        BLOCKS = ("field", SELF, i_blocks)
        segs, problems = seqs.returned_segments(crate, f, lambda ls: (lambda blk: dec.conds_of(ls, blk)))
        segs = [seqs.norm_seg(g) for g in segs]
        det = {"segments": [{"count": fmt(g["count"])[:60], "inner": [{"count": fmt(x["count"])[:80], "value": fmt(x["value"])[:120]}
                                                                      for x in g.get("inner", [])]} for g in segs], "problems": problems}
        okl = not problems and len(segs) == 1 and segs[0]["count"] == ("len", BLOCKS) and segs[0]["cond"] is None and "inner" in segs[0]
        rep.check(okl, R, f.key, "blocks-in-order", f.loc(), "the packet list visits self.blocks once, in index order", det, cfg)
        ok = False
        if okl:
            inner = segs[0]["inner"]
            ENC = ("index", BLOCKS, seqs.IXO)

            def elems_of(g, fname, args_ok):
                """segment = all elements, in order, of <block encoder>.fname(..)"""
                if g["cond"] is not None or g["count"][0] != "len":
                    return False
                vec = g["count"][1]
                if not (vec[0] == "call" and isinstance(vec[1], str) and vec[1].endswith("SourceBlockEncoder::" + fname)):
                    return False
                a = [seqs._strip_refs(x) for x in vec[2]]
                if a[0] != ENC or not args_ok([N(x) for x in vec[2][1:]]):
                    return False
                v = seqs._strip_refs(g["value"])
                return v == ("index", seqs._strip_refs(vec), seqs.IX)
            ok = len(inner) == 2 and elems_of(inner[0], "source_packets", lambda a: a == []) and \
                elems_of(inner[1], "repair_packets", lambda a: a == [("const", 0), P(2)])
        rep.check(ok, R, f.key, "source-then-repair", f.loc(),
                  "per block, in block order: all its source packets, then its repair packets 0..n (window start 0, the caller's n)",
                  det, cfg)


def run_plans(rep, crate, cfg):
    R = "C18-R4"
    plan = None
    for p, a in crate.adts.items():
        if p.endswith("SourceBlockEncodingPlan"):
            plan = (p, a)
    rep.floor(R, 1 if plan else 0, 1, "SourceBlockEncodingPlan", cfg)
    if not plan:
        return
    p, a = plan
    fs = a["variants"][0]["fields"]
    rep.check(len(fs) == 2 and sorted(f["ty"]["s"] for f in fs)[1] == "u16", R, p, "plan-state", mir.sp_loc(a["sp"]),
              "a plan consists of the operation list and the symbol count only (plans for equal counts carry no other state)",
              {"fields": [f["name"] for f in fs]}, cfg)
    i_cnt = [i for i, f in enumerate(fs) if f["ty"]["s"] == "u16"][0]
    wp = [f for k, f in crate.fns.items() if k.endswith("SourceBlockEncoder::with_encoding_plan")]
    rep.floor(R, len(wp), 1, "with_encoding_plan", cfg)
    for f in wp:
        tb = terms.TermBuilder(f)
        exits = f.cfg.exits()
        conds = [terms.canon_cond(N(c), v) for c, v in tb.path_conditions(exits[0])] if exits else []
        cnt = ("field", ("deref", P(4)), i_cnt)
        ok = any(v and c[0] == "op" and c[1] == "Eq" and cnt in (c[2], c[3]) and
                 any(x[0] == "call" and x[1].endswith("::len") for x in (c[2], c[3])) for c, v in conds)
        rep.check(ok, R, f.key, "count-check", f.loc(), "with_encoding_plan refuses a plan whose symbol count differs from the block's", None, cfg)
    en = [f for k, f in crate.fns.items() if k.endswith("encoder::Encoder::new") or k == "encoder::Encoder::new"]
    for f in en:
        def sink(ct, t):
            if ct[0] == "call" and isinstance(ct[1], str) and ct[1].split("::")[-1] in ("generate", "with_encoding_plan"):
                return ct[1].split("::")[-1]
            return None
        ls = loops.LoopSummary(f, sink)
        gens = [e for e in ls.events if e["sink"] == "generate"]
        wps = [e for e in ls.events if e["sink"] == "with_encoding_plan"]
        ok = len(gens) == 1 and len(wps) == 1
        if len(wps) == 1 and not gens:
            # the plan comes from the process-wide cache: it must be the cached plan for THIS block's symbol count
            planarg = N(wps[0]["args"][3])
            block = wps[0]["args"][2]
            while block[0] in ("ref", "deref", "deref*"):
                block = block[1]
            got = terms.find(("call", V("g", lambda x: isinstance(x, str) and x.endswith("get_or_generate_source_block_encoding_plan")), (V("n"),)), planarg)
            okc = False
            if got is not None:
                n_ = N(got[0]["n"])
                T_ = ("call", "base::ObjectTransmissionInformation::symbol_size", (V("c"),))
                mm = match(("op", "Div", ("call", V("l", lambda x: isinstance(x, str) and x.endswith("::len")), (V("d"),)), T_), n_)
                d_ = mm["d"] if mm else None
                while d_ is not None and d_[0] in ("ref", "deref", "deref*"):
                    d_ = d_[1]
                okc = mm is not None and d_ == N(block)
            rep.check(okc, R, f.key, "plan-reuse", f.loc(),
                      "Encoder::new takes, for every block, the cached plan of exactly that block's symbol count", {"plan": fmt(planarg)[:200]}, cfg)
            continue
        if ok:
            cnt = N(gens[0]["args"][0])
            dnf = dec.conds_of(ls, gens[0]["block"])
            # regenerated whenever there is no cached plan or its count differs from this block's count
            od = dec.opt_dnf(dnf)
            none_arm = [cj for cj in od if any(c[0] == "is-some" and v is False for c, v in cj) and
                        not any(c[0] == "op" for c, v in cj)]
            diff_arm = [cj for cj in od if any(c[0] == "op" and ((c[1] == "Ne" and v) or (c[1] == "Eq" and not v)) and cnt in (c[2], c[3])
                                               for c, v in cj) and not any(c[0] == "is-some" and v is False for c, v in cj)]
            ok = len(od) == 2 and len(none_arm) == 1 and len(diff_arm) == 1
            # block data handed to the encoder is the data the count was computed from
            data = N(wps[0]["args"][2])
            ok = ok and terms.find(("call", V("l", lambda x: isinstance(x, str) and x.endswith("::len")), (V("d"),)), cnt) is not None
        rep.check(ok, R, f.key, "plan-reuse", f.loc(),
                  "Encoder::new generates a fresh plan exactly when none is cached or the cached count differs from this block's symbol count",
                  {"events": loops.render(ls)[-400:]}, cfg)
