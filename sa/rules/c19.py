"""C19 — the configuration constructor enforces the RFC limits.

R1 admission predicate: the path predicate of the constructor's normal return,
   as a boolean function of atomic conditions, equals
   F <= 942574504275  and  T mod Al = 0  and  ceil(ceil(F/T)/Z) <= 56403
   on the property's domain (T, Z, Al positive).
R2 computed without loss: every integer cast and arithmetic assert between the
   parameters and the compared value is value preserving for all admitted inputs.
R3 faithful value: fields = parameters, accessors return their field, no mutation API.
"""
import itertools

from .. import mir, terms, absint
from ..terms import V, match
from ..aff import IntV

F_LIMIT = 942574504275
K_MAX = 56403


def simplify(t):
    def f(x):
        if x[0] == "deref" and x[1][0] == "ref":
            return x[1][1]
        return x
    return terms.normalise(terms.strip_casts(terms.map_term(t, f)))


def find_ctor(crate):
    """constructor by role: pub fn in an inherent impl of a struct whose fields are (u64,u16,u8,u16,u8),
    taking exactly those five integers and returning the struct"""
    out = []
    for k, f in crate.fns.items():
        if f.f["kind"] != "AssocFn" or f.argc != 5:
            continue
        ins = [i.get("s") for i in f.f.get("inputs", [])]
        if ins == ["u64", "u16", "u8", "u16", "u8"] and f.f["output"].get("k") == "adt" and f.f["vis"] == "pub":
            out.append(f)
    return out


def run(rep, crate, cfg):
    ctors = find_ctor(crate)
    rep.floor("C19-R1", len(ctors), 1, "public 5-parameter constructor of the transmission configuration", cfg)
    for fn in ctors:
        adt = fn.f["output"]["adt"]
        r1(rep, crate, cfg, fn)
        r2(rep, crate, cfg, fn)
        r3(rep, crate, cfg, fn, adt)


def r1(rep, crate, cfg, fn):
    R = "C19-R1"
    tb = terms.TermBuilder(fn)
    exits = fn.cfg.exits()
    rep.check(len(exits) == 1, R, fn.key, "single-return", fn.loc(), "constructor has one normal return", {"returns": len(exits)}, cfg)
    if len(exits) != 1:
        return
    dnf = terms.path_dnf(tb, exits[0])
    if dnf is None:
        rep.bad(R, fn.key, "path-predicate", fn.loc(), "cannot compute the acceptance predicate (too many paths)", None, cfg)
        return
    F, T, Z, N, AL = [("param", i) for i in range(1, 6)]
    zero = ("const", 0)
    expected = {
        "limit": simplify(("op", "Le", F, ("const", F_LIMIT))),
        "align": simplify(("op", "Eq", ("op", "Rem", T, AL), zero)),
        "symbols": simplify(("op", "Le", ("ceildiv", ("ceildiv", F, T), Z), ("const", K_MAX))),
    }
    domain = {  # atomic conditions fixed by the property's domain (positive T, Z, Al)
        simplify(("op", "Ne", zero, T)): True,
        simplify(("op", "Ne", zero, Z)): True,
        simplify(("op", "Ne", zero, AL)): True,
        simplify(("op", "Eq", zero, T)): False,
        simplify(("op", "Eq", zero, Z)): False,
        simplify(("op", "Eq", zero, AL)): False,
        simplify(("op", "Lt", zero, T)): True,
        simplify(("op", "Lt", zero, Z)): True,
        simplify(("op", "Lt", zero, AL)): True,
    }
    # canonical atoms of the code's predicate
    conjs = []
    atoms = {}
    for conj in dnf:
        cc = []
        for c, v in conj:
            c2, v2 = terms.canon_cond(simplify(terms.inline(c, crate)), v)
            c2 = simplify(c2)
            if c2[0] == "overflow" or (c2[0] == "const"):
                continue
            # overflow flags of checked arithmetic are R2's obligations, not part of the predicate
            if any(s[0] == "overflow" for s in terms.subterms(c2)):
                continue
            cc.append((c2, v2))
            atoms.setdefault(c2, None)
        conjs.append(cc)
    exp_by_term = {v: k for k, v in expected.items()}
    unknown = [a for a in atoms if a not in exp_by_term and a not in domain and not neg_in(a, exp_by_term)]
    for a in unknown:
        # name the closest expected condition for the report
        rep.bad(R, fn.key, "unexpected-condition:" + terms.fmt(a)[:120], fn.loc(),
                "acceptance depends on a condition that is none of the documented limits: %s (expected atoms: %s)"
                % (terms.fmt(a), "; ".join(terms.fmt(x) for x in expected.values())), None, cfg)
    # arithmetic lemma (T: u16 <= 65535, Z: u8 <= 255): ceil(ceil(F/T)/Z) <= K  =>  ceil(F/T) <= K*Z  =>  F <= K*Z*T <= K*255*65535;
    # K_MAX * 255 * 65535 is exactly the documented transfer-length limit, so on the property's domain the symbols test
    # implies the length test (a constructor that only keeps the former still refuses every over-long object)
    lemma = K_MAX * 255 * 65535 <= F_LIMIT
    present_of = {}
    for name, t in expected.items():
        present_of[name] = t in atoms or any(neg_of(a) == t for a in atoms)
    for name, t in expected.items():
        present = present_of[name] or (name == "limit" and lemma and present_of["symbols"])
        rep.check(present, R, fn.key, "limit-present:" + name, fn.loc(),
                  "the constructor tests %s%s" % (terms.fmt(t), " (or the symbols-per-block test, which implies it for T <= 65535, Z <= 255)"
                                                  if name == "limit" else ""), {"atoms_found": [terms.fmt(a) for a in atoms]}, cfg)
    if unknown:
        return
    # truth table over the three expected atoms, domain atoms fixed
    names = list(expected)
    ok = True
    witness = None
    for vals in itertools.product([False, True], repeat=len(names)):
        env = {expected[n]: v for n, v in zip(names, vals)}
        env.update(domain)

        def val(a):
            if a in env:
                return env[a]
            na = neg_of(a)
            if na in env:
                return not env[na]
            return None
        if lemma and env[expected["symbols"]] and not env[expected["limit"]]:
            continue        # infeasible by the lemma above
        code = any(all(val(a) == v for a, v in cc) for cc in conjs)
        want = all(vals)
        if code != want:
            ok = False
            witness = dict(zip(names, vals))
            break
    rep.check(ok, R, fn.key, "predicate-equivalence", fn.loc(),
              "acceptance predicate == (F <= 942574504275) and (T mod Al == 0) and (ceil(ceil(F/T)/Z) <= 56403) "
              "for positive T, Z, Al (truth table over the atomic conditions)", {"differs_at": witness}, cfg)


def neg_of(a):
    if a[0] == "op":
        m = {"Eq": "Ne", "Ne": "Eq"}
        if a[1] in m:
            return terms.normalise(("op", m[a[1]], a[2], a[3]))
        if a[1] == "Lt":
            return terms.normalise(("op", "Le", a[3], a[2]))
        if a[1] == "Le":
            return terms.normalise(("op", "Lt", a[3], a[2]))
    return None


def neg_in(a, d):
    n = neg_of(a)
    return n is not None and n in d


def r2(rep, crate, cfg, fn):
    R = "C19-R2"
    an = absint.Analysis(crate)

    def mk(lo, hi, bits):
        return lambda an_, st, tj, nm: an_.atom_val(nm, lo, hi, bits, False)
    names = [fn.locals[i + 1].get("name") for i in range(5)]
    ov = {names[0]: mk(0, (1 << 64) - 1, 64), names[1]: mk(1, 65535, 16), names[2]: mk(1, 255, 8),
          names[3]: mk(0, 65535, 16), names[4]: mk(1, 255, 8)}
    an.analyse(fn, ov)
    rep.assumptions.append("C19-R2: T in 1..65535, Z in 1..255, Al in 1..255 (the property's domain); F is any u64")
    n = 0
    for key, o in sorted(an.obls.items(), key=lambda kv: (kv[0][0], kv[0][1], str(kv[0][2]))):
        fnk, kind, fp = key
        if kind == "panic" and not str(fp).startswith("div_ceil-by-zero"):
            continue   # the explicit refusals are R1's subject
        n += 1
        rep.check(o["ok"], R, fnk, "%s:%s" % (kind, fp), o["loc"],
                  "%s: %s [%s] on the constructor's path" % (fnk, o["msg"], fp),
                  {"contexts": o["bad_ctx"], "values": o["detail"]} if not o["ok"] else None, cfg)
    rep.floor(R, n, 1, "casts / arithmetic asserts between the parameters and the compared value", cfg)
    rep.analysed.setdefault("functions", [])
    for k in sorted(an.visited_fns):
        if k not in rep.analysed["functions"]:
            rep.analysed["functions"].append(k)


def r3(rep, crate, cfg, fn, adt):
    R = "C19-R3"
    tb = terms.TermBuilder(fn)
    rt = tb.return_term()
    want = ("agg", None, tuple(("param", i) for i in range(1, 6)))
    ok = rt[0] == "agg" and rt[1].startswith("adt:" + adt) and rt[2] == want[2]
    rep.check(ok, R, fn.key, "fields-are-parameters", fn.loc(),
              "the constructed value's five fields are the five parameters, in declaration order", {"term": terms.fmt(rt)[:200]}, cfg)
    a = crate.adts.get(adt)
    if a is None:
        rep.bad(R, adt, "adt-missing", fn.loc(), "configuration struct not found", None, cfg)
        return
    fields = a["variants"][0]["fields"]
    priv = all(f["vis"] != "pub" for f in fields)
    rep.check(priv, R, adt, "fields-private", mir.sp_loc(a["sp"]), "all fields of the configuration struct are private",
              {"vis": [f["vis"] for f in fields]}, cfg)
    # accessors + no &mut self API
    acc = 0
    for k, f in crate.fns.items():
        if f.f.get("impl_self", {}).get("adt") != adt or f.f.get("impl_trait"):
            continue
        ins = f.f.get("inputs", [])
        if ins and ins[0].get("k") == "ref" and ins[0].get("mut"):
            rep.bad(R, k, "mutating-method", f.loc(), "method takes &mut self: an accepted configuration could change", None, cfg)
        if f.argc == 1 and ins and ins[0].get("k") == "ref" and f.f["output"].get("k") == "int" and f.f["vis"] == "pub":
            t = terms.TermBuilder(f).return_term()
            m = match(("field", ("deref", ("param", 1)), V("i")), t)
            okf = m is not None and isinstance(m["i"], int) and m["i"] < len(fields) and \
                fields[m["i"]]["ty"]["s"] == f.f["output"]["s"]
            # accessor name must mention the field it returns (transfer_length -> transfer_length, ...)
            acc += 1
            rep.check(okf, R, k, "accessor-returns-field", f.loc(),
                      "%s returns a field of self unchanged" % k.split("::")[-1], {"term": terms.fmt(t)[:120]}, cfg)
            if okf:
                fname = fields[m["i"]]["name"]
                short = k.split("::")[-1]
                related = short in fname or fname in short or fname.replace("num_", "").replace("_", "") in short.replace("_", "") \
                    or short.replace("_", "") in fname.replace("num_", "").replace("symbol_", "").replace("_", "")
                rep.check(related, R, k, "accessor-field-role", f.loc(),
                          "%s returns the field of the same role (%s)" % (short, fname), None, cfg)
    rep.floor(R, acc, 5, "accessors of the configuration struct", cfg)
