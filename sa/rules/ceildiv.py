"""Recognise crate functions that compute a ceiling division (by their return term) and give the
interpreter an exact transfer function for them; the narrowing cast inside stays an obligation,
evaluated per call context."""
from .. import mir, terms, absint, models
from ..aff import IntV, norm, fits


def find_ceildiv_fns(crate):
    out = {}
    for k, f in crate.fns.items():
        if f.f["kind"] != "Fn" or f.argc != 2:
            continue
        ins = f.f.get("inputs", [])
        if len(ins) != 2 or any(i.get("k") != "int" for i in ins) or f.f["output"].get("k") != "int":
            continue
        try:
            rt = terms.normalise(terms.TermBuilder(f).return_term())
        except Exception:
            continue
        cd = ("ceildiv", ("param", 1), ("param", 2))
        if rt == cd:
            out[k] = None
        elif rt[0] == "cast" and rt[2] == cd:
            out[k] = rt[1]
    return out


def install(an, crate):
    fns = find_ceildiv_fns(crate)
    for path, cast_to in fns.items():
        an.summaries[path] = make(path, cast_to, crate)
    return fns


def make(path, cast_to, crate):
    callee = crate.fns[path]
    out_ty = callee.f["output"]

    def handler(an, st, fid, fn, t, args, record):
        a, b = args
        if type(a) is not IntV or type(b) is not IntV:
            return NotImplemented
        rng = an.rng_fn(st)
        a = norm(a, rng)
        b = norm(b, rng)
        okz = b.nlo >= 1
        if record:
            an.oblige("assert", callee, "ceildiv-divisor-nonzero", okz, mir.stmt_loc(t),
                      "%s: divisor is non-zero" % path.split("::")[-1], None if okz else {"divisor": repr(b)})
        if not okz:
            if b.nhi < 1:
                return None
            b = b.with_(nlo=1)
        r = models.ceil_div(a, b, 128, False)
        bits, signed = out_ty["bits"], out_ty["signed"]
        # domain assumptions registered by the rule set speak about the mathematical quotient
        for h in an.post_hooks:
            r = h(an, st, path, (a, b), r)
        ok = fits(r, bits, signed)
        if record and cast_to is not None:
            an.oblige("cast", callee, "ceildiv-result-fits-%s" % out_ty["s"], ok, mir.stmt_loc(t),
                      "%s: quotient fits in %s (no truncation)" % (path.split("::")[-1], out_ty["s"]),
                      None if ok else {"quotient": repr(r), "num": repr(a), "den": repr(b)})
        if not ok:
            return IntV.top(bits, signed), st
        return r.retype(bits, signed), st
    return handler
