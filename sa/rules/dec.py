"""Path / pairing rules over the decoder (C01, C02, C08): the structural part of
'the answer depends only on the set of distinct packets and is the original object'."""
from .. import mir, terms, loops
from ..terms import V, match, fmt

P = lambda i: ("param", i)
SELF = ("deref", P(1))
N = lambda t: terms.normalise(terms.strip_casts(terms.simplify(t)))


def fld(i):
    return ("field", SELF, i)


def is_plumbing(c):
    """conditions introduced by loop desugaring (discriminant of Iterator::next) carry no program meaning"""
    return c[0] == "op" and any(s[0] == "discr" for s in terms.subterms(c)) and \
        any(s[0] == "call" and isinstance(s[1], str) and s[1].endswith("Iterator::next") for s in terms.subterms(c))


def conds_of(ls, blk):
    """DNF of canonical conditions (plumbing removed) under which blk executes"""
    dnf = terms.path_dnf(ls.tb, blk) or []
    out = []
    for cj in dnf:
        s = set()
        for c, v in cj:
            if is_plumbing(c):
                continue
            c2, v2 = terms.canon_cond(N(ls.canon(c)), v)
            s.add((N(c2), v2))
        out.append(frozenset(s))
    return terms.simplify_dnf(out)


def neg_of(a):
    if a[0] == "op":
        m = {"Eq": "Ne", "Ne": "Eq"}
        if a[1] in m:
            return terms.normalise(("op", m[a[1]], a[2], a[3]))
        if a[1] == "Lt":
            return terms.normalise(("op", "Le", a[3], a[2]))
        if a[1] == "Le":
            return terms.normalise(("op", "Lt", a[3], a[2]))
    return None


def must(dnf, cond, truth=True):
    """cond == truth on every path (a negated comparison may appear as the opposite comparison)"""
    n = neg_of(cond)
    return bool(dnf) and all(((cond, truth) in cj) or (n is not None and (n, not truth) in cj) for cj in dnf)


def opt_dnf(dnf):
    """tests of an Option in one canonical form (("is-some", X), truth): match arms, if-let, let-else, is_some()/is_none()"""
    out = []
    for cj in dnf:
        cs = set()
        for c, v in cj:
            if c[0] == "switch-other" and c[1][0] == "discr" and tuple(c[2]) in ((1,), (0,)):
                cs.add((("is-some", c[1][1]), (not v) if tuple(c[2]) == (1,) else v))
                continue
            m_ = match(("op", "Eq", ("const", V("k")), ("discr", V("x"))), c)
            if m_ is not None and m_["k"] in (0, 1):
                cs.add((("is-some", m_["x"]), v if m_["k"] == 1 else (not v)))
                continue
            if c[0] == "call" and isinstance(c[1], str) and c[1].endswith("Option::<T>::is_none") and len(c[2]) == 1:
                x = c[2][0]
                while x[0] in ("ref", "deref", "deref*"):
                    x = x[1]
                cs.add((("is-some", x), not v))
                continue
            if c[0] == "call" and isinstance(c[1], str) and c[1].endswith("Option::<T>::is_some") and len(c[2]) == 1:
                x = c[2][0]
                while x[0] in ("ref", "deref", "deref*"):
                    x = x[1]
                cs.add((("is-some", x), v))
                continue
            cs.add((c, v))
        out.append(frozenset(cs))
    return terms.simplify_dnf(out)


def struct_fields(crate, adt):
    a = crate.adts.get(adt)
    return a["variants"][0]["fields"] if a else []


def find_sbd(crate):
    for p, a in crate.adts.items():
        if p.endswith("SourceBlockDecoder"):
            return p
    return None


def roles_sbd(crate):
    """field indices of SourceBlockDecoder by type"""
    p = find_sbd(crate)
    fs = struct_fields(crate, p)
    r = {"adt": p}
    for i, f in enumerate(fs):
        s = f["ty"]["s"]
        if "Set<u32>" in s:
            r["esi_set"] = i
        elif s.endswith("Vec<std::option::Option<symbol::Symbol>>") or s.endswith("Vec<core::option::Option<symbol::Symbol>>"):
            r["source_symbols"] = i
        elif s.endswith("Vec<base::EncodingPacket>"):
            r["repair_packets"] = i
        elif s == "bool":
            r["decoded"] = i
    r["names"] = [f["name"] for f in fs]
    r["u32s"] = [i for i, f in enumerate(fs) if f["ty"]["s"] == "u32"]
    return r


def sbd_decode(crate):
    p = find_sbd(crate)
    out = []
    for k, f in crate.fns.items():
        if f.f.get("impl_self", {}).get("adt") == p and f.f["kind"] == "AssocFn" and f.argc == 2 and \
                f.f["output"].get("s", "").endswith("Option<std::vec::Vec<u8>>") | f.f["output"].get("s", "").endswith("Option<alloc::vec::Vec<u8>>"):
            if f.f["inputs"][0].get("mut") and f.f["vis"] == "pub":
                out.append(f)
    return out


# ---------------------------------------------------------------------------

def c08_block_decoder(rep, crate, cfg):
    """C08-R1/R2: duplicate suppression before counting/storing, counter == population"""
    R1, R2 = "C08-R1", "C08-R2"
    r = roles_sbd(crate)
    fns = sbd_decode(crate)
    rep.floor(R1, len(fns), 1, "SourceBlockDecoder::decode", cfg)
    need = ("esi_set", "source_symbols", "repair_packets")
    if any(k not in r for k in need):
        rep.bad(R1, r.get("adt") or "?", "struct-shape", "-", "SourceBlockDecoder lacks the ESI set / symbol vector / repair list", None, cfg)
        return
    for f in fns:
        def sink(ct, t):
            if ct[0] == "store":
                return "store"
            if ct[0] == "call" and isinstance(ct[1], str) and ct[1].endswith("Vec::<T, A>::push"):
                return "push"
            return None
        ls = loops.LoopSummary(f, sink)
        where = f.loc()
        ESI = None
        ITEM = ("item", 0)
        # the accumulating loop is the loop over the packets parameter
        ok_loop = bool(ls.loops) and ls.loops[0]["source"] == P(2)
        rep.check(ok_loop, R1, f.key, "packet-loop", where, "the accumulation loop iterates the packets handed in", None, cfg)
        # every packet of the batch is examined: the loop is left only when the iterator is exhausted, or when all K
        # source symbols are present (the answer is then determined); any other early break/return makes the outcome
        # depend on how the same symbols are batched
        extra_exits = []
        if ok_loop:
            lp0 = ls.loops[0]
            body = ls.loops_raw[lp0["head"]]
            live = f.cfg._can_reach_exit()
            exits = [(b, s_) for b in sorted(body) for s_ in f.cfg.succ[b] if s_ not in body and s_ in live]
            n_iter = 0
            for b, s_ in exits:
                t_ = f.blocks[b]["term"]
                if t_["t"] == "switch" and ls.tb.operand(b, None, t_["discr"]) == ("discr", lp0.get("next_term")):
                    n_iter += 1
                else:
                    extra_exits.append((b, s_))
            rep.check(n_iter == 1, R1, f.key, "intake-exhausts-iterator", where,
                      "the accumulation loop has the exit 'packet iterator exhausted'", {"exit_edges": ["bb%d->bb%d" % e for e in exits]}, cfg)
        # C02-R4 / C08-R1 'intake-unconditional': every packet of the batch is *recorded*: within one iteration no live
        # path goes from 'the iterator produced a packet' back to the loop head without passing the call
        # received_esi.insert(..).  (Panicking branches - the block-id assert - are not live; leaving the loop is judged by
        # 'intake-total' below.)  A guard that silently drops some packets ('malformed', 'ESI too large') makes a
        # determined block undecodable, although every other rule about what happens *after* the insert still holds.
        if ok_loop:
            lp0 = ls.loops[0]
            body = ls.loops_raw[lp0["head"]]
            live = f.cfg._can_reach_exit()
            ins_blocks = set()
            for b in body:
                t_ = f.blocks[b]["term"]
                if t_["t"] != "call" or f.blocks[b]["cleanup"]:
                    continue
                ct = ls.tb.call_term(b, t_)
                if ct[0] == "call" and isinstance(ct[1], str) and ct[1].endswith("::insert") and ct[2] and \
                        N(ls.canon(ct[2][0])) == ("ref", fld(r["esi_set"])):
                    ins_blocks.add(b)
            entries = []
            for b in sorted(body):
                t_ = f.blocks[b]["term"]
                if t_["t"] == "switch" and ls.tb.operand(b, None, t_["discr"]) == ("discr", lp0.get("next_term")):
                    entries += [s_ for s_ in f.cfg.succ[b] if s_ in body and s_ in live]
            seen, st_, skipping = set(), list(entries), []
            while st_:
                x = st_.pop()
                if x in seen or x in ins_blocks:
                    continue
                seen.add(x)
                for s_ in f.cfg.succ[x]:
                    if s_ not in live or s_ not in body:
                        continue
                    if s_ == lp0["head"]:
                        skipping.append("bb%d->bb%d" % (x, s_))
                    else:
                        st_.append(s_)
            rep.check(len(ins_blocks) == 1 and bool(entries) and not skipping, R1, f.key, "intake-unconditional", where,
                      "every packet the iterator yields reaches received_esi.insert(..) before the next iteration: no guard "
                      "drops a packet unrecorded (the only branch allowed before the insert is one whose other arm panics)",
                      {"insert_blocks": sorted(ins_blocks), "iteration_entries": entries, "skipping_back_edges": sorted(skipping)}, cfg)
        # C08-R6: what happens after the intake loop depends on the accumulated state only.  A user variable that is
        # written inside the loop (a per-call counter, a flag "something new arrived", the last packet) and read after
        # it makes the answer depend on how the same set of packets is split over calls.
        if ok_loop:
            from ..absint import places_of
            body = ls.loops_raw[ls.loops[0]["head"]]
            carried = set()
            for b in body:
                blk = f.blocks[b]
                if blk["cleanup"]:
                    continue
                for s_ in blk["stmts"]:
                    if s_["s"] == "assign" and f.locals[s_["lhs"]["l"]].get("user") and s_["lhs"]["l"] > f.argc:
                        carried.add(s_["lhs"]["l"])
                t_ = blk["term"]
                if t_["t"] == "call" and t_.get("dest") and f.locals[t_["dest"]["l"]].get("user") and t_["dest"]["l"] > f.argc:
                    carried.add(t_["dest"]["l"])
            leaks = set()
            live_ = f.cfg._can_reach_exit()
            for blk in f.blocks:
                if blk["cleanup"] or blk["i"] in body or blk["i"] not in f.cfg.reach or blk["i"] not in live_:
                    continue            # (panic paths leaving the loop never produce an answer)
                nodes = [s_ for s_ in blk["stmts"] if s_["s"] == "assign"] + [blk["term"]]
                for nd in nodes:
                    if nd.get("t") in ("drop", "storage"):
                        continue
                    for pl in places_of(nd):
                        if pl["l"] in carried and not (nd.get("s") == "assign" and nd["lhs"] is pl) and pl is not nd.get("dest"):
                            leaks.add(f.locals[pl["l"]].get("name") or "_%d" % pl["l"])
            rep.check(not leaks, "C08-R6", f.key, "answer-from-accumulated-state", where,
                      "after the intake loop no variable written per packet of this call is read: the decision to answer and the "
                      "answer depend on the decoder's accumulated state only (same set of packets => same outcome, however batched)",
                      {"per-call variables read after the loop": sorted(leaks)}, cfg)
        pid = ("field", ("call", "base::EncodingPacket::split", (ITEM,)), 0)
        ESI = N(("call", "base::PayloadId::encoding_symbol_id", (("ref", pid),)))
        INS = None
        muts = []
        for e in ls.events:
            a0 = N(e["args"][0])
            tgt = None
            if e["sink"] == "push" and a0 == ("ref", fld(r["repair_packets"])):
                tgt = "repair_packets"
            elif e["sink"] == "store":
                m = match(("deref", ("call", V("im", lambda x: isinstance(x, str) and x.endswith("index_mut")),
                                     (("ref", fld(r["source_symbols"])), V("ix")))), a0)
                if m is not None:
                    tgt = "source_symbols"
                    e["_ix"] = N(m["ix"])
                else:
                    m = match(fld(V("i")), a0)
                    if m is not None and m["i"] in r["u32s"]:
                        tgt = "counter:%d" % m["i"]
            if tgt:
                muts.append((tgt, e))
        kinds = [t for t, _ in muts]
        counters = [t for t in kinds if t.startswith("counter")]
        rep.check("repair_packets" in kinds and "source_symbols" in kinds and len(counters) == 1, R1, f.key, "mutations-found", where,
                  "decode mutates exactly: the repair list, one source-symbol slot, one counter", {"found": kinds}, cfg)
        if not ("repair_packets" in kinds and "source_symbols" in kinds and len(counters) == 1):
            continue
        counter_idx = int(counters[0].split(":")[1])
        insert = ("call", None, None)
        dn = {}
        for tgt, e in muts:
            dnf = conds_of(ls, e["block"])
            dn[tgt] = dnf
            # guard: received_esi.insert(ESI) returned true on every path to the mutation
            ins = [c for cj in dnf for c, v in cj if v and c[0] == "call" and isinstance(c[1], str) and c[1].endswith("::insert")
                   and N(c[2][0]) == ("ref", fld(r["esi_set"]))]
            okg = bool(ins) and must(dnf, ins[0], True) and N(ins[0][2][1]) == ESI
            rep.check(okg and e["loop"] == 0, R1, f.key, "novelty-guard:" + tgt.split(":")[0], where,
                      "the update of %s happens only when received_esi.insert(this packet's ESI) reported a new ESI" % tgt.split(":")[0],
                      {"conditions": [[(fmt(c)[:80], v) for c, v in cj] for cj in dnf]}, cfg)
        # classification by the same ESI: repair iff ESI >= K
        cls = [c for cj in dn["repair_packets"] for c, v in cj if c[0] == "op" and c[1] in ("Le", "Lt") and ESI in (c[2], c[3])]
        okc = False
        kfield = None
        if cls:
            c = cls[0]
            # canonical form of ESI >= K is  K <= ESI
            m = match(("op", "Le", fld(V("k")), ESI), c)
            if m is not None and m["k"] in r["u32s"] and m["k"] != counter_idx:
                kfield = m["k"]
                okc = must(dn["repair_packets"], c, True) and must(dn["source_symbols"], c, False) and must(dn[counters[0]], c, False)
        rep.check(okc, R1, f.key, "classification", where,
                  "a packet is stored as repair iff its own ESI >= K, as source otherwise (same ESI term as the novelty test)",
                  {"cond": fmt(cls[0])[:120] if cls else None}, cfg)
        bad_exits = []
        for b, s_ in extra_exits:
            bc = ls.tb.branch_cond(b)
            okx = False
            if bc is not None and kfield is not None:
                c_, tt, ft = bc
                c_ = N(ls.canon(c_))
                leaving_true = (tt == s_)
                if leaving_true and c_ in (N(("op", "Eq", fld(counter_idx), fld(kfield))), N(("op", "Le", fld(kfield), fld(counter_idx)))):
                    okx = True
            if not okx:
                bad_exits.append("bb%d->bb%d" % (b, s_))
        rep.check(not bad_exits, R1, f.key, "intake-total", where,
                  "no packet of a batch is skipped: the accumulation loop is left early only when all K source symbols are present",
                  {"early_exits": bad_exits}, cfg)
        src = [e for t, e in muts if t == "source_symbols"][0]
        rep.check(src.get("_ix") == ESI, R1, f.key, "slot-index", where, "the source symbol is stored in slot [its own ESI]",
                  {"index": fmt(src.get("_ix"))[:100] if src.get("_ix") else None}, cfg)
        # R2: counter += 1 exactly with the slot store
        ce = [e for t, e in muts if t.startswith("counter")][0]
        okinc = N(ce["args"][1]) == N(("op", "Add", ("const", 1), fld(counter_idx)))
        same = set(dn["source_symbols"]) == set(dn[counters[0]])
        rep.check(okinc and same, R2, f.key, "counter-increment", where,
                  "the received-source counter is incremented by one exactly where a new source slot is filled",
                  {"value": fmt(ce["args"][1])[:80]}, cfg)
        # who-may-write the counter / slots elsewhere in the crate
        adt = r["adt"]
        cname = r["names"][counter_idx]
        others = []
        for k2, g in crate.fns.items():
            for blk in g.blocks:
                if blk["cleanup"]:
                    continue
                for s in blk["stmts"]:
                    if s["s"] != "assign":
                        continue
                    for e2 in s["lhs"]["proj"]:
                        if e2["p"] == "field" and e2.get("adt") == adt and e2.get("name") == cname and g.key != f.key:
                            others.append(k2)
        rep.check(not others, R2, adt, "counter-writers", where, "no other function writes the received-source counter", {"writers": others}, cfg)
        rep.analysed["sbd_roles_" + cfg] = {"K": r["names"][kfield] if kfield is not None else None, "counter": cname}
    return r


def completeness_test(crate, f, ls, i_blocks, some_block):
    """recognise 'answer None while any per-block result is still None' in its accepted idioms:
       (A) for b in self.blocks.iter() { if b.is_none() { return None } }
       (B) if self.blocks.iter().any(|b| b.is_none()) { return None }      (C) if !self.blocks.iter().all(|b| b.is_some()) ..."""
    base = N(("call", "std::slice::<impl [T]>::iter", (("deref*", ("ref", fld(i_blocks))),)))
    for lp in ls.loops:
        if N(lp["source"] or ("x",)) == base:
            for c, v in lp["conds"]:
                if N(c) == N(("call", "std::option::Option::<T>::is_none", (("item", lp["id"]),))) and v is False:
                    return "loop"
                if N(c) == N(("call", "std::option::Option::<T>::is_some", (("item", lp["id"]),))) and v is True:
                    return "loop"
    dnf = conds_of(ls, some_block)
    for kind, meth, truth_for_some in (("any", "is_none", False), ("all", "is_some", True)):
        for cj in dnf:
            for c, v in cj:
                if c[0] == "call" and isinstance(c[1], str) and c[1].endswith("Iterator::" + kind) and len(c[2]) == 2:
                    src = c[2][0]
                    while src[0] == "ref":
                        src = src[1]
                    clo = c[2][1]
                    if N(src) != base or clo[0] != "agg" or not clo[1].startswith("closure:"):
                        continue
                    g = crate.fns.get(clo[1][len("closure:"):])
                    if g is None:
                        continue
                    body = N(terms.TermBuilder(g).return_term())
                    okb = body[0] == "call" and body[1].endswith("Option::<T>::" + meth) and body[2] and \
                        terms.find(("param", 2), body[2][0]) is not None
                    if okb and must(dnf, c, truth_for_some):
                        return kind
    return None


def object_decoder(crate):
    for p, a in crate.adts.items():
        fs = a["variants"][0]["fields"] if a["kind"] == "Struct" else []
        if any(f["ty"]["s"].endswith("Vec<std::option::Option<std::vec::Vec<u8>>>") or
               f["ty"]["s"].endswith("Vec<core::option::Option<alloc::vec::Vec<u8>>>") for f in fs) and p.startswith("decoder::"):
            return p, fs
    return None, []


def c08_object_decoder(rep, crate, cfg):
    """C08-R3 (memoisation monotone), R4 (incremental == one-shot), R5 (clone derived)"""
    R3, R4, R5 = "C08-R3", "C08-R4", "C08-R5"
    p, fs = object_decoder(crate)
    rep.floor(R3, 1 if p else 0, 1, "object decoder struct (per-block results Vec<Option<Vec<u8>>>)", cfg)
    if not p:
        return
    i_blocks = [i for i, f in enumerate(fs) if "Option<" in f["ty"]["s"] and "Vec<u8>" in f["ty"]["s"]][0]
    i_decs = [i for i, f in enumerate(fs) if "SourceBlockDecoder" in f["ty"]["s"]][0]
    i_cfg = [i for i, f in enumerate(fs) if "ObjectTransmissionInformation" in f["ty"]["s"]][0]
    meths = {k.split("::")[-1]: f for k, f in crate.fns.items() if f.f.get("impl_self", {}).get("adt") == p and not f.f.get("impl_trait")}
    upd = {}
    res = {}

    def sink(ct, t):
        if ct[0] == "store":
            return "store"
        if ct[0] == "call" and isinstance(ct[1], str):
            last = ct[1].split("::")[-1]
            if last in ("extend", "truncate", "extend_from_slice", "push", "resize", "sort", "reverse", "rev") or ct[1].endswith("SourceBlockDecoder::decode"):
                return last
        return None
    for nm, f in sorted(meths.items()):
        takes_packet = any("EncodingPacket" in i.get("s", "") for i in f.f["inputs"])
        returns_opt = "Option<" in f.f["output"].get("s", "")
        if not (takes_packet or returns_opt) or nm == "new":
            continue
        ls = loops.LoopSummary(f, sink)
        where = f.loc()
        if takes_packet:
            BN = N(("call", "base::PayloadId::source_block_number", (("ref", ("field", P(2), 0)),)))
            stores = [e for e in ls.events if e["sink"] == "store" and
                      match(("deref", ("call", V("im"), (("ref", fld(i_blocks)), V("ix")))), N(e["args"][0])) is not None]
            rep.check(len(stores) == 1, R3, f.key, "one-result-store", where, "%s writes one per-block result slot" % nm, {"stores": len(stores)}, cfg)
            for e in stores:
                m = match(("deref", ("call", V("im"), (("ref", fld(i_blocks)), V("ix")))), N(e["args"][0]))
                dnf = conds_of(ls, e["block"])
                # "blocks[bn] is None" in any spelling (is_none(), match None, if let): canonical Option atoms over blocks[bn]
                from .. import seqs

                def slot(x):
                    x = seqs._N(x)
                    while x[0] in ("ref", "deref", "deref*"):
                        x = x[1]
                    return x
                SLOT = ("index", fld(i_blocks), BN)
                od = [frozenset(((("is-some", slot(c[1])), v) if c[0] == "is-some" else (c, v)) for c, v in cj) for cj in opt_dnf(dnf)]
                okg = must(od, ("is-some", SLOT), False) and N(m["ix"]) == BN
                dnf = od
                rep.check(okg, R3, f.key, "memo-guard", where,
                          "%s stores into blocks[bn] only while blocks[bn] is None, bn = the packet's own source block number" % nm,
                          {"conds": [[(fmt(c)[:90], v) for c, v in cj] for cj in dnf], "index": fmt(m["ix"])[:80]}, cfg)
                val = N(e["args"][1])
                want = ("call", V("d", lambda x: isinstance(x, str) and x.endswith("SourceBlockDecoder::decode")),
                        (("call", V("im2"), (("ref", fld(i_decs)), BN)), V("it")))
                mv = match(want, val)
                if mv is None:
                    # the block decoder reached through a named &mut local
                    want2 = ("call", V("d", lambda x: isinstance(x, str) and x.endswith("SourceBlockDecoder::decode")), (V("recv"), V("it")))
                    mv2 = match(want2, val)
                    if mv2 is not None and slot(mv2["recv"]) == ("index", fld(i_decs), BN):
                        mv = mv2
                okv = mv is not None and terms.find(P(2), mv["it"]) is not None
                rep.check(okv, R3, f.key, "memo-value", where, "%s: the stored value is block_decoders[bn].decode(this packet)" % nm,
                          {"value": fmt(val)[:160]}, cfg)
                upd[nm] = (frozenset(map(frozenset, dnf)), N(e["args"][0]), val)
        if returns_opt:
            roles = {}
            sig = loops.signature(ls, roles)
            # result construction = events that are not the update
            ev = [(s, a) for lp, s, a in sig["events"] if s in ("extend", "truncate", "extend_from_slice", "push", "resize", "sort", "reverse")]
            # loop identities are positional: renumber the loops that appear in the events in order of first use
            order = {}

            def ren(x):
                if x[0] == "item" and isinstance(x[1], int):
                    order.setdefault(x[1], len(order))
                    return ("item", order[x[1]])
                return x
            ev = [(s_, tuple(terms.map_term(a_, ren) for a_ in args)) for s_, args in ev]
            # the loop(s) that produce those events, by their iteration source and carried state
            lps = tuple(sorted({sig["loops"][lp][2:] for lp, s, a in sig["events"]
                                if lp is not None and s in ("extend", "extend_from_slice", "push")}, key=repr))
            somes = [b for b, t, d in return_sites(f, ls) if t[0] == "agg" and t[1].endswith("Option::Some")]
            comp = completeness_test(crate, f, ls, i_blocks, somes[0]) if somes else None
            res[nm] = (ev, (lps, comp is not None), f)
            # all-Some test: return None while any block is None; Some only after
            tb = ls.tb
    # R4: siblings agree
    takers = sorted(upd)
    rep.floor(R4, len(takers), 2, "packet-accepting methods of the object decoder", cfg)
    if len(takers) >= 2:
        a, b = takers[0], takers[1]
        rep.check(upd[a] == upd[b], R4, p, "update-agreement", "-",
                  "%s and %s perform the same guarded update (guard, slot, value)" % (a, b), None, cfg)
    rs = sorted(res)
    rep.floor(R4, len(rs), 2, "result-returning methods of the object decoder", cfg)
    if len(rs) >= 2:
        a, b = rs[0], rs[1]
        rep.check(res[a][0] == res[b][0] and res[a][1] == res[b][1], R4, p, "result-agreement", "-",
                  "%s and %s build the result identically (same all-blocks test loop, same concatenation loop, same truncation)" % (a, b),
                  {"a": [loops.fmt_any(x)[:120] for x in res[a][0]], "b": [loops.fmt_any(x)[:120] for x in res[b][0]]}, cfg)
    # R5: Clone derived for the decoder types and what they contain
    want = {p, find_sbd(crate)}
    got = {}
    for im in crate.impls:
        if im["trait"] and im["trait"].endswith("Clone") and im["self_ty"].get("adt") in want:
            got[im["self_ty"]["adt"]] = im["derived"]
    for w in sorted(want):
        rep.check(got.get(w) is True, R5, w, "clone-derived", "-", "%s: Clone is derived (every field is cloned)" % w.split("::")[-1],
                  {"impl": got.get(w)}, cfg)
    return {"adt": p, "i_blocks": i_blocks, "i_decs": i_decs, "i_cfg": i_cfg, "res": res}


def c01_object(rep, crate, cfg):
    """C01-R1 (exact length) and C01-R4 (block order) on the object decoder"""
    R1, R4 = "C01-R1", "C01-R4"
    p, fs = object_decoder(crate)
    if not p:
        rep.floor(R1, 0, 1, "object decoder", cfg)
        return
    i_blocks = [i for i, f in enumerate(fs) if "Option<" in f["ty"]["s"] and "Vec<u8>" in f["ty"]["s"]][0]
    i_decs = [i for i, f in enumerate(fs) if "SourceBlockDecoder" in f["ty"]["s"]][0]
    i_cfg = [i for i, f in enumerate(fs) if "ObjectTransmissionInformation" in f["ty"]["s"]][0]
    n = 0
    for k, f in sorted(crate.fns.items()):
        if f.f.get("impl_self", {}).get("adt") != p or f.f.get("impl_trait") or "Option<" not in f.f["output"].get("s", ""):
            continue
        if "Vec<u8>" not in f.f["output"].get("s", ""):
            continue
        n += 1

        def sink(ct, t):
            if ct[0] == "call" and isinstance(ct[1], str) and ct[1].split("::")[-1] in ("extend", "truncate", "extend_from_slice", "push", "resize", "rev", "sort", "reverse", "sort_by", "sort_by_key"):
                return ct[1].split("::")[-1]
            return None
        ls = loops.LoopSummary(f, sink)
        tb = ls.tb
        where = f.loc()
        # Some-returns: assignments _0 = Some(x)
        somes = []
        for blk in f.blocks:
            if blk["cleanup"] or blk["i"] not in f.cfg.reach:
                continue
            for i, s in enumerate(blk["stmts"]):
                if s["s"] == "assign" and s["lhs"]["l"] == 0 and not s["lhs"]["proj"] and s["rv"]["r"] == "aggregate" and \
                        s["rv"].get("variant") == "Some":
                    somes.append((blk["i"], tb.operand(blk["i"], i, s["rv"]["ops"][0])))
        rep.check(len(somes) >= 1, R1, f.key, "some-return", where, "%s has a Some(result) return" % k.split("::")[-1], None, cfg)
        TL = N(("call", "base::ObjectTransmissionInformation::transfer_length", (("ref", fld(i_cfg)),)))
        for sb, buf in somes:
            tr = [e for e in ls.events if e["sink"] in ("truncate", "resize") and N(e["args"][0]) == N(("ref", buf))]
            ok = len(tr) == 1 and f.cfg.dominates(tr[0]["block"], sb) and N(tr[0]["args"][1]) == TL and tr[0]["loop"] is None
            rep.check(ok, R1, f.key, "truncate-to-transfer-length", where,
                      "every Some(result) of %s is cut to exactly transfer_length() bytes on the way to the return" % k.split("::")[-1],
                      {"length_ops": [(e["sink"], fmt(e["args"][1])[:80]) for e in tr]}, cfg)
            # concatenation: the result, before it is cut, is the blocks' bytes in index order (comprehension normal form)
            from .. import seqs
            BL = fld(i_blocks)
            seqs.OPTION_BASES.add(BL)

            def sink_seq(ct, t):
                if ct[0] == "call" and isinstance(ct[1], str):
                    if ct[1].endswith("Vec::<T, A>::push"):
                        return "push"
                    if ct[1].split("::")[-1] in ("extend", "extend_from_slice"):
                        return "extend"
                return None
            ls2 = loops.LoopSummary(f, sink_seq)
            buf2 = ls2.canon(ls2.tb.operand(sb, None, {"o": "copy", "l": 0, "proj": []})) if False else ls.canon(buf)
            segs, problems = seqs.segments_of_value(crate, f, ls2, buf2, lambda blk_: conds_of(ls2, blk_))
            segs = [seqs.norm_seg(g) for g in segs]
            detc = {"segments": [{"count": fmt(g["count"])[:60], "cond": fmt(g["cond"])[:80] if g["cond"] else None,
                                  "inner": [{"count": fmt(x["count"])[:80], "value": fmt(x["value"])[:100]} for x in g.get("inner", [])]}
                                 for g in segs], "problems": problems}
            okx = not problems and len(segs) == 1 and segs[0]["count"] == ("len", BL) and "inner" in segs[0] and len(segs[0]["inner"]) == 1
            if okx:
                BLK = ("index", BL, seqs.IXO)
                SOME = ("field", ("variant", BLK, "Some"), 0)
                g = segs[0]
                inner = g["inner"][0]
                cond_ok = g["cond"] is None or g["cond"] == ("is-some", BLK)
                vec = seqs._strip_refs(inner["count"][1]) if inner["count"][0] == "len" else None
                okx = cond_ok and inner["cond"] is None and vec in (SOME, BLK) and \
                    seqs._strip_refs(inner["value"]) == ("index", vec, seqs.IX)
                if vec == BLK:
                    okx = False      # extending by an Option itself is not the block's bytes
            rep.check(okx, R4, f.key, "concatenation-order", where,
                      "the result is the concatenation of self.blocks in index order (no reversal, no sorting, each block once)",
                      detc, cfg)
            # None while any block is missing
            how = completeness_test(crate, f, ls, i_blocks, sb)
            rep.check(how is not None, R1, f.key, "none-while-incomplete", where,
                      "%s answers None as long as one block result is still None (idiom: %s)" % (k.split("::")[-1], how),
                      {"loops": loops.render(ls)[:200]}, cfg)
    rep.floor(R1, n, 2, "result-returning methods of the object decoder", cfg)
    # block decoders are created in ascending block-number order, indexed by the packet's SBN
    newf = [f for k, f in crate.fns.items() if f.f.get("impl_self", {}).get("adt") == p and k.endswith("::new")]
    for f in newf:
        from .. import seqs

        def sink2(ct, t):
            if ct[0] == "call" and isinstance(ct[1], str):
                if ct[1].endswith("Vec::<T, A>::push"):
                    return "push"
                if ct[1].split("::")[-1] == "extend":
                    return "extend"
            return None
        ls = loops.LoopSummary(f, sink2)
        # the vector stored as the decoder list of the constructed object, in comprehension normal form
        vec = None
        for blk in f.blocks:
            if blk["cleanup"] or blk["i"] not in f.cfg.reach:
                continue
            for si, st in enumerate(blk["stmts"]):
                if st["s"] == "assign" and st["rv"]["r"] == "aggregate" and st["rv"].get("adt") == p:
                    for fl, o in zip(st["rv"]["fields"], st["rv"]["ops"]):
                        if "SourceBlockDecoder" in str(o.get("ty", "")) and o.get("o") in ("move", "copy"):
                            vec = ls.canon(ls.tb.operand(blk["i"], si, o))
        ok = vec is not None
        det = {}
        if ok:
            segs, problems = seqs.segments_of_value(crate, f, ls, vec, lambda blk_: conds_of(ls, blk_))
            segs = [seqs.norm_seg(g) for g in segs]
            det = {"segments": [{"count": fmt(g["count"])[:60], "value": fmt(g["value"])[:160]} for g in segs], "problems": problems}
            IX = seqs.IX
            ok = not problems and len(segs) == 2 and all(g["cond"] is None for g in segs)
            if ok:
                NEW = lambda g: match(("call", V("c", lambda x: isinstance(x, str) and x.endswith("SourceBlockDecoder::new")), (V("sbn"), V("cfg"), V("len"))), g["value"])
                n0, n1 = NEW(segs[0]), NEW(segs[1])
                ok = n0 is not None and n1 is not None
            if ok:
                PART = V("p", lambda x: x[0] == "call" and isinstance(x[1], str) and x[1].endswith("base::partition"))
                m0 = match(("field", PART, 2), segs[0]["count"])
                ok = m0 is not None and segs[1]["count"] == ("field", m0["p"], 3)
            if ok:
                pt = m0["p"]
                T = ("call", "base::ObjectTransmissionInformation::symbol_size", (("ref", P(1)),))
                ok = N(n0["sbn"]) == IX and N(n1["sbn"]) == N(("op", "Add", ("field", pt, 2), IX)) and \
                    N(n0["len"]) == N(("op", "Mul", ("field", pt, 0), T)) and N(n1["len"]) == N(("op", "Mul", ("field", pt, 1), T))
        rep.check(ok, R4, f.key, "block-decoders-ascending", f.loc(),
                  "Decoder::new creates block decoders 0..ZL with KL*T bytes, then ZL..ZL+ZS with KS*T bytes, numbered by position",
                  det, cfg)


# ---------------------------------------------------------------------------
# SourceBlockDecoder::decode: return sites (C01-R2, C02-R1/R2) and try_pi_decode* (C01-R3)

def return_sites(f, ls):
    """[(block, canonical term of the value assigned to _0, DNF of conditions)]"""
    tb = ls.tb
    out = []
    for (b, idx, full) in tb.defs.get(0, []):
        if not full or b not in f.cfg.reach:
            continue
        t = N(ls.canon(tb.def_term((b, idx, full), 0)))
        out.append((b, t, conds_of(ls, b)))
    return out


def calls_in(t, suffixes):
    out = []
    for s in terms.subterms(t):
        if s[0] == "call" and isinstance(s[1], str) and any(s[1].endswith(x) for x in suffixes):
            out.append(s)
    return out


def c02_block(rep, crate, cfg, r):
    R1, R2, C1 = "C02-R1", "C02-R2", "C01-R2"
    fns = sbd_decode(crate)
    rep.floor(R1, len(fns), 1, "SourceBlockDecoder::decode", cfg)
    for f in fns:
        def sink(ct, t):
            if ct[0] == "call" and isinstance(ct[1], str) and ct[1].split("::")[-1] in ("unpack_sub_blocks",):
                return ct[1].split("::")[-1]
            return None
        ls = loops.LoopSummary(f, sink)
        where = f.loc()
        sites = return_sites(f, ls)
        kinds = []
        attempt = None
        for b, t, dnf in sites:
            a = calls_in(t, ("try_pi_decode_no_hdpc",))
            s = calls_in(t, ("::try_pi_decode",))
            if t == ("agg", "adt:std::option::Option::None", ()):
                kinds.append(("none", b, t, dnf))
            elif t[0] == "agg" and t[1].endswith("Option::Some"):
                kinds.append(("some-direct", b, t, dnf))
            elif a and (t == a[0] or t[0] in ("ite", "phi")) and not s:
                kinds.append(("attempt", b, t, dnf))
                attempt = a
            elif s and (t == s[0] or t[0] in ("ite", "phi")):
                kinds.append(("solve", b, t, dnf))
            else:
                kinds.append(("other", b, t, dnf))
        names = sorted(k[0] for k in kinds)
        rep.check("other" not in names and names.count("none") == 1 and names.count("some-direct") == 1 and
                  names.count("attempt") == 1 and names.count("solve") >= 1, R2, f.key, "answer-sites", where,
                  "the block decoder answers only at: too-few-symbols (None), all-source fast path, GF(2) attempt (if it succeeded), full solve",
                  {"found": [(k[0], fmt(k[2])[:80]) for k in kinds]}, cfg)
        if "other" in names or names.count("attempt") != 1:
            continue
        # K, set, counter by role
        K = None
        none = [k for k in kinds if k[0] == "none"][0]
        for c, v in (next(iter(none[3])) if none[3] else []):
            m = match(("op", "Lt", ("call", V("len", lambda x: isinstance(x, str) and x.endswith("::len")), (("ref", fld(V("s"))),)), fld(V("k"))), c)
            if m is not None and v and m["s"] == r.get("esi_set"):
                K = m["k"]
        rep.check(K is not None and len(none[3]) == 1 and len(next(iter(none[3]))) == 1, C1, f.key, "too-few-test", where,
                  "'not yet' is answered exactly when fewer than K distinct ESIs have been received (strict <, number of distinct ESIs)",
                  {"conds": [[(fmt(c)[:90], v) for c, v in cj] for cj in none[3]]}, cfg)
        if K is None:
            continue
        # fast path
        fast = [k for k in kinds if k[0] == "some-direct"][0]
        eqs = [c for cj in fast[3] for c, v in cj if v and c[0] == "op" and c[1] == "Eq" and fld(K) in (c[2], c[3])]
        cnt = None
        if eqs:
            other = [x for x in (eqs[0][2], eqs[0][3]) if x != fld(K)]
            m = match(fld(V("c")), other[0]) if other else None
            cnt = m["c"] if m else None
        rep.check(cnt is not None and all(any(c == eqs[0] and v for c, v in cj) for cj in fast[3]), C1, f.key, "fast-path-guard", where,
                  "the all-source answer is given exactly when the received-source counter equals K",
                  {"conds": [[(fmt(c)[:90], v) for c, v in cj] for cj in fast[3]]}, cfg)
        solver_blocks = [bi for bi, t in f.calls() if (t.get("callee") or "").split("::")[-1] in
                         ("try_pi_decode", "try_pi_decode_no_hdpc", "fused_inverse_mul_symbols", "fused_inverse_mul_symbols_no_hdpc")]
        reach = set()
        for sb in solver_blocks:
            reach |= f.cfg.reachable_from(sb)
        rep.check(fast[1] not in reach, C1, f.key, "fast-path-no-solver", where,
                  "the all-source answer is produced without going through the solver", None, cfg)
        ups = [e for e in ls.events if e["sink"] == "unpack_sub_blocks" and f.cfg.dominates(e["block"], fast[1]) is False
               and e["loop"] is not None and fast[1] in f.cfg.reachable_from(e["block"]) and not (set([e["block"]]) & reach)]
        okf = False
        if len(ups) == 1:
            e = ups[0]
            lp = ls.loops[e["loop"]]
            src_ok = N(lp["source"]) == N(("call", "std::iter::Iterator::enumerate", (("call", "std::slice::<impl [T]>::iter", (("deref*", ("ref", fld(r["source_symbols"]))),)),)))
            it = ("item", e["loop"])
            a = [N(x) for x in e["args"]]
            sym = terms.find(("field", it, 1), a[2])
            buf_ok = a[1] in (fast[2][2][0], ("ref", fast[2][2][0]))
            okf = src_ok and a[0] == P(1) and sym is not None and a[3] == ("field", it, 0) and buf_ok
        rep.check(okf, C1, f.key, "fast-path-copy", where,
                  "the all-source answer writes symbol i of self.source_symbols (and nothing else) at position i of the result",
                  {"events": [[fmt(x)[:70] for x in e["args"]] for e in ups]}, cfg)
        # C02-R1: the GF(2)-only attempt never becomes a negative answer
        att = [k for k in kinds if k[0] == "attempt"][0]
        ISSOME = [c for cj in att[3] for c, v in cj if c[0] == "call" and isinstance(c[1], str) and c[1].endswith("::is_some")
                  and calls_in(c, ("try_pi_decode_no_hdpc",))]
        ok1 = bool(ISSOME) and all((ISSOME[0], True) in cj for cj in att[3])
        rep.check(ok1, R1, f.key, "attempt-only-if-some", where,
                  "the result of the GF(2)-only attempt is returned only when it is Some", None, cfg)
        bad_none = [k for k in kinds if k[0] == "none" and any(calls_in(c, ("try_pi_decode_no_hdpc",)) for cj in k[3] for c, v in cj)]
        rep.check(not bad_none, R1, f.key, "no-give-up-after-attempt", where,
                  "no 'None' answer depends on the outcome of the GF(2)-only attempt", None, cfg)
        solves = [k for k in kinds if k[0] == "solve"]
        ok2 = True
        for k in solves:
            for cj in k[3]:
                mentions = [(c, v) for c, v in cj if calls_in(c, ("try_pi_decode_no_hdpc",))]
                if mentions and not all(c == ISSOME[0] and v is False for c, v in mentions if ISSOME):
                    ok2 = False
        rep.check(ok2 and bool(solves), R1, f.key, "falls-back-to-full-solve", where,
                  "whenever the attempt was skipped or returned None, the answer is that of the full (HDPC) solve", None, cfg)
        # same system for both attempts: same ISI list, same threshold comparison
        gens = []
        for bi, t in f.calls():
            cal = (t.get("callee") or "")
            if cal.split("::")[-1] in ("generate_constraint_matrix", "generate_constraint_matrix_no_hdpc"):
                ct = N(ls.canon(ls.tb.call_term(bi, t)))
                sel = [(c, v) for cj in conds_of(ls, bi) for c, v in cj if c[0] == "op" and c[1] in ("Le", "Lt") and
                       any(x[0] == "call" and x[1].endswith("extended_source_block_symbols") for x in (c[2], c[3]))]
                gens.append((cal.split("::")[-1], ct[2], t.get("callee_full", ""), sel))
        args_equal = len({g[1] for g in gens}) == 1 and len(gens) == 4
        rep.check(args_equal, R1, f.key, "same-system", where,
                  "both attempts build their matrix for the same K and the same list of received ISIs",
                  {"calls": [(g[0], [fmt(a)[:50] for a in g[1]]) for g in gens]}, cfg)
        thr = {}
        for name, a, full, sel in gens:
            dense = "DenseBinaryMatrix" in full
            for c, v in sel:
                if c[1] == "Lt":
                    c, v = terms.normalise(("op", "Le", c[3], c[2])), not v
                thr.setdefault((name, dense), set()).add((c, v))
        conds = {c for s in thr.values() for c, v in s}
        okthr = len(conds) == 1 and all(any(v is (not d) for c, v in s) for (n_, d), s in thr.items()) and len(thr) == 4
        rep.check(okthr, R1, f.key, "same-threshold", where,
                  "both attempts choose sparse vs dense by the same comparison K' >= sparse_threshold",
                  {"conds": [fmt(c)[:90] for c in conds]}, cfg)


def c01_solve(rep, crate, cfg, r):
    R = "C01-R3"
    p = find_sbd(crate)
    fns = [f for k, f in crate.fns.items() if f.f.get("impl_self", {}).get("adt") == p and k.split("::")[-1].startswith("try_pi_decode")]
    rep.floor(R, len(fns), 2, "solver front-ends of the block decoder", cfg)
    for f in fns:
        def sink(ct, t):
            if ct[0] == "call" and isinstance(ct[1], str) and ct[1].split("::")[-1] in ("unpack_sub_blocks", "rebuild_source_symbol_into"):
                return ct[1].split("::")[-1]
            return None
        ls = loops.LoopSummary(f, sink)
        where = f.loc()
        sites = return_sites(f, ls)
        solver = None
        for bi, t in f.calls():
            if (t.get("callee") or "").split("::")[-1].startswith("fused_inverse_mul_symbols"):
                solver = N(ls.canon(ls.tb.call_term(bi, t)))
        rep.check(solver is not None, R, f.key, "solver-call", where, "calls the inactivation-decoding solver", None, cfg)
        if solver is None:
            continue
        DISC = ("discr", ("field", solver, 0))
        okn = oks = False
        buf = None

        def opt_dnf(dnf):
            """tests of an Option discriminant in one canonical form: (("is-some", X), truth); match arms, if-let and let-else
            all reduce to it"""
            out = []
            for cj in dnf:
                cs = set()
                for c, v in cj:
                    if c[0] == "switch-other" and c[1][0] == "discr" and tuple(c[2]) in ((1,), (0,)):
                        cs.add((("is-some", c[1][1]), (not v) if tuple(c[2]) == (1,) else v))
                        continue
                    m_ = match(("op", "Eq", ("const", V("k")), ("discr", V("x"))), c)
                    if m_ is not None and m_["k"] in (0, 1):
                        cs.add((("is-some", m_["x"]), v if m_["k"] == 1 else (not v)))
                        continue
                    cs.add((c, v))
                out.append(frozenset(cs))
            return out
        ISSOME = ("is-some", ("field", solver, 0))
        for b, t, dnf in sites:
            if t == ("agg", "adt:std::option::Option::None", ()):
                okn = must(opt_dnf(dnf), ISSOME, False)
            elif t[0] == "agg" and t[1].endswith("Option::Some"):
                oks = must(opt_dnf(dnf), ISSOME, True)
                buf = t[2][0]
        rep.check(okn and oks and len(sites) == 2, R, f.key, "some-iff-solution", where,
                  "%s answers Some exactly when the solver returned intermediate symbols, None exactly when it returned None" % f.key.split("::")[-1],
                  {"sites": [(fmt(t)[:60], [[(fmt(c)[:60], v) for c, v in cj] for cj in d]) for b, t, d in sites]}, cfg)
        sol = ("field", ("variant", ("field", solver, 0), "Some"), 0)
        rb = [e for e in ls.events if e["sink"] == "rebuild_source_symbol_into"]
        ok = len(rb) == 1 and rb[0]["loop"] is not None
        if ok:
            a = [N(x) for x in rb[0]["args"]]
            it = ("item", rb[0]["loop"])
            ok = a[0] == P(1) and a[2] in (("ref", sol), sol) and a[3] == it
        rep.check(ok, R, f.key, "rebuild-from-solution", where,
                  "missing source symbol i is rebuilt from the solver's intermediate symbols with ISI i", None, cfg)
        ups = [e for e in ls.events if e["sink"] == "unpack_sub_blocks"]
        oku = len(ups) == 2 and all(e["loop"] == rb[0]["loop"] for e in ups) if rb else False
        if oku:
            it = ("item", rb[0]["loop"])
            for e in ups:
                a = [N(x) for x in e["args"]]
                oku = oku and a[0] == P(1) and a[3] == it and buf is not None and a[1] in (buf, ("ref", buf))
            # received symbol i is used when present (Some), rebuilt otherwise
            lp = ls.loops[rb[0]["loop"]]
            oku = oku and N(lp["source"]) == N(("agg", "adt:std::ops::Range", (("const", 0), fld(rng_k(crate, r, lp)))))
        rep.check(oku, R, f.key, "assemble-by-index", where,
                  "for i in 0..K the result gets, at position i, the received symbol i if present else the rebuilt one", None, cfg)


def c01_rebuild_fresh(rep, crate, cfg):
    """C01-R3 (freshness): a rebuilt source symbol is the XOR of intermediate symbols starting from nothing: either the
    rebuilding routine overwrites the buffer with the first term (first-flag discipline), or every caller zero-fills the
    buffer in the same loop iteration before the call.  The buffer is reused across missing symbols."""
    R = "C01-R3"
    p = find_sbd(crate)
    rbs = [f for k, f in crate.fns.items() if f.f.get("impl_self", {}).get("adt") == p and
           any((t.get("callee") or "").endswith("constraint_matrix::enc_indices") for _, t in f.calls())]
    rep.floor(R, len(rbs), 1, "routine rebuilding a source symbol from intermediate symbols", cfg)
    for f in rbs:
        tb = terms.TermBuilder(f)
        where = f.loc()
        clo = None
        for bi, t in f.calls():
            if (t.get("callee") or "").endswith("constraint_matrix::enc_indices"):
                for a in t["args"]:
                    x = tb.operand(bi, "T", a)
                    if x[0] == "agg" and x[1].startswith("closure:"):
                        clo = x
        g = crate.fns.get(clo[1][len("closure:"):]) if clo else None
        if g is None:
            rep.bad(R, f.key, "rebuild-closure", where, "the rebuilding routine passes a closure to enc_indices", None, cfg)
            continue
        # which capture is the destination: the one that is the &mut [u8] parameter of f
        tg = terms.TermBuilder(g)
        over, acc = [], []
        for bi, t in g.calls():
            cal = t.get("resolved") or t.get("callee") or ""
            if not t["args"]:
                continue
            a0 = tg.operand(bi, "T", t["args"][0])
            m = match(("deref", ("field", ("deref", P(1)), V("j"))), a0) or match(("field", ("deref", P(1)), V("j")), a0)
            if m is None or not isinstance(m["j"], int) or m["j"] >= len(clo[2]) or clo[2][m["j"]][0] != "param":
                continue
            if cal.endswith("copy_from_slice"):
                over.append((bi, m["j"]))
            elif cal.endswith("octets::add_assign"):
                acc.append((bi, m["j"]))
        callee_fresh = False
        det = {"overwrites": len(over), "accumulates": len(acc)}
        if over and acc:
            # first-flag discipline: branch on a captured bool initialised true; overwrite on the true side followed by flag = false
            for blk in g.blocks:
                if blk["cleanup"] or blk["term"]["t"] != "switch":
                    continue
                d = tg.operand(blk["i"], None, blk["term"]["discr"])
                m = match(("deref", ("deref", ("field", P(1), V("j")))), d) or match(("deref", ("field", ("deref", P(1)), V("j"))), d)
                if m is None or not isinstance(m["j"], int) or m["j"] >= len(clo[2]):
                    continue
                init = clo[2][m["j"]]
                while init[0] == "ref":
                    init = init[1]
                arms = dict((v, tgt) for v, tgt in blk["term"]["arms"])
                t_false = arms.get(0)
                t_true = blk["term"]["otherwise"]
                if t_false is None:
                    continue
                r_true = g.cfg.reachable_from(t_true) - g.cfg.reachable_from(t_false)
                r_false = g.cfg.reachable_from(t_false) - g.cfg.reachable_from(t_true)
                clears = False
                for b in r_true:
                    for si, st in enumerate(g.blocks[b]["stmts"]):
                        if st["s"] == "assign" and st["rv"]["r"] == "use" and st["rv"]["a"].get("o") == "const" and st["rv"]["a"].get("v") == 0 \
                                and st["lhs"]["proj"] and tg.place(b, si, st["lhs"]) in (d, ):
                            clears = True
                callee_fresh = init == ("const", 1) and all(b in r_true for b, _ in over) and all(b in r_false for b, _ in acc) and clears
                det["flag_initial"] = fmt(init)
                det["flag_cleared_after_overwrite"] = clears
        if callee_fresh:
            rep.ok(R, where, "%s overwrites the buffer with the first term and accumulates the rest (first-flag: initialised true, "
                   "cleared on the overwriting side)" % f.key.split("::")[-1], det, cfg)
        # callers
        sites = 0
        for k2, h in sorted(crate.fns.items()):
            for bi, t in h.calls():
                if (t.get("resolved") or t.get("callee")) != f.key:
                    continue
                sites += 1
                th = terms.TermBuilder(h)
                # index of the destination argument = the &mut [u8] parameter
                dj = [j for j, x in enumerate(f.f.get("inputs", [])) if x.get("k") == "ref" and x.get("mut") and "[u8]" in str(x.get("s", x))]
                dj = dj[0] if dj else 1
                buf = th.operand(bi, "T", t["args"][dj])
                while buf[0] in ("ref", "deref", "deref*"):
                    buf = buf[1]
                lo = h.cfg.loops()
                def inner(b):
                    best = None
                    for hd, body in lo.items():
                        if b in body and (best is None or len(body) < len(lo[best])):
                            best = hd
                    return best
                caller_fresh = False
                for b2, t2 in h.calls():
                    c2 = t2.get("resolved") or t2.get("callee") or ""
                    if c2.endswith("::fill") and len(t2["args"]) == 2 and h.cfg.dominates(b2, bi) and inner(b2) == inner(bi):
                        x = th.operand(b2, "T", t2["args"][0])
                        while x[0] in ("ref", "deref", "deref*"):
                            x = x[1]
                        v = th.operand(b2, "T", t2["args"][1])
                        if x == buf and v == ("const", 0):
                            caller_fresh = True
                rep.check(callee_fresh or caller_fresh, R, k2, "rebuilt-symbol-fresh", mir.stmt_loc(t),
                          "%s: the reused buffer holds nothing of an earlier symbol when a missing symbol is rebuilt into it "
                          "(routine overwrites first, or the caller zero-fills in the same iteration)" % k2.split("::")[-1],
                          dict(det, callee_fresh=callee_fresh, caller_zero_fills=caller_fresh), cfg)
        rep.floor(R, sites, 2, "call sites of the rebuilding routine", cfg)


def rng_k(crate, r, lp):
    m = match(("agg", "adt:std::ops::Range", (("const", 0), fld(V("k")))), N(lp["source"]))
    return m["k"] if m else -1
