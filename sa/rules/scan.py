"""Table-scan schema (C15-R2) and the exhaustion lemma that discharges the
`unreachable!()` after such a scan.

Schema A (lookup over a const table of tuples):
    assert!(k <= C);  for row in TABLE.iter() { if row.key >= k { return row.col } }  unreachable!()
Schema B (degree table):
    assert!(v < C);   for d in a..f.len() { if v < f[d] { return g(d) } }               unreachable!()

Exhaustion lemma: the loop can only fall through when the scan condition is
false for every row; if some row's key satisfies the condition for every
argument admitted by the entry assert, the code after the loop is dead.
"""
from .. import mir, terms
from ..terms import V, match, find

NEXT = "std::iter::Iterator::next"


def _strip_iter(t):
    """iterator source term -> (base, reversed?)"""
    rev = False
    while True:
        if t[0] == "ref":
            t = t[1]
            continue
        if t[0] == "call" and isinstance(t[1], str):
            name = t[1]
            if name.endswith("IntoIterator::into_iter") or name.endswith("::into_iter"):
                t = t[2][0]
                continue
            if name.endswith("Iterator::rev"):
                rev = not rev
                t = t[2][0]
                continue
            if name.endswith("<impl [T]>::iter"):
                return ("slice", t[2][0]), rev
        if t[0] == "agg" and t[1].endswith("ops::Range") and len(t[2]) == 2:
            return ("range", t[2][0], t[2][1]), rev
        return ("other", t), rev


def _const_table(crate, t):
    """term of a slice source -> (path, rows) when it is a reference to a const/static table of the crate"""
    while t[0] in ("ref", "deref"):
        t = t[1]
    if t[0] == "item":
        c = crate.consts.get(t[1])
        if c is not None and isinstance(c["value"], list):
            return t[1], c["value"]
    if t[0] == "agg" and t[1] == "array" and all(x[0] == "const" for x in t[2]):
        return "<local array>", [x[1] for x in t[2]]
    return None


def match_find(fn, tb, rb, rt, conds):
    """idiom: TABLE.iter()[.map(..)].find(|row| row.key OP k)[.map(..)] unwrapped (match Some / unwrap_or_else(unreachable))"""
    from .. import seqs
    crate = fn.crate
    pf = seqs.parse_first(crate, rt)
    if pf is None or not pf.get("unwrapped"):
        return None
    IX = seqs.IX
    N = seqs._N
    cnt = N(pf["count"])
    if cnt[0] != "len":
        return None
    tab = _const_table(crate, cnt[1])
    if tab is None:
        return None
    ROW = ("index", seqs._strip_refs(cnt[1]), IX)

    def rowify(x):
        # references to the row and the row itself are the same thing for field reads
        return terms.simplify(terms.map_term(x, lambda y: y[1] if y[0] in ("ref", "deref", "deref*") else y))
    cond = rowify(N(pf["cond"]))
    res = rowify(N(pf["result"]))
    ROWR = rowify(ROW)
    mb = match(("op", V("op"), ("field", ROWR, V("kc")), ("param", V("p"))), cond)
    flip = False
    if mb is None:
        mb = match(("op", V("op"), ("param", V("p")), ("field", ROWR, V("kc"))), cond)
        flip = True
    if mb is None:
        return None
    op = mb["op"]
    if flip:
        op = {"Lt": "Gt", "Le": "Ge", "Gt": "Lt", "Ge": "Le"}.get(op, op)
    mv = match(("field", ROWR, V("vc")), res)
    whole = res == ROWR
    if mv is None and not whole:
        return None
    guard = None
    for c, truth in conds:
        for pat, flipg in ((("op", V("op"), ("param", V("p")), ("const", V("c"))), False),
                           (("op", V("op"), ("const", V("c")), ("param", V("p"))), True)):
            e = match(pat, c)
            if e is not None and truth:
                o = e["op"]
                if flipg:
                    o = {"Lt": "Gt", "Le": "Ge", "Gt": "Lt", "Ge": "Le"}.get(o, o)
                if o in ("Le", "Lt"):
                    guard = {"param": e["p"], "op": o, "bound": e["c"]}
    rows = tab[1]
    out = {"fn": fn.key, "guard": guard, "rev": False, "ret": rt, "cond": cond, "return_block": rb, "kind": "table",
           "table": tab[0], "key_col": mb["kc"], "op": op, "param": mb["p"], "keys": [r[mb["kc"]] for r in rows],
           "rows": len(rows), "idiom": "find"}
    if whole:
        out.update(val_col=None, vals=None, table_rows=rows)
    else:
        out.update(val_col=mv["vc"], vals=[r[mv["vc"]] for r in rows])
    return out


def match_scan(fn):
    """returns dict describing the scan or None"""
    crate = fn.crate
    tb = terms.TermBuilder(fn)
    rts = tb.return_terms()
    if len(rts) != 1:
        return None
    rb, rt = rts[0]
    conds = tb.path_conditions(rb)
    fm = match_find(fn, tb, rb, rt, conds)
    if fm is not None:
        return fm
    # the entry guard: comparison of a parameter with a constant, on the path to the return
    guard = None
    scan = None
    for c, truth in conds:
        if c[0] != "op":
            continue
        nx = find(("call", V("callee", lambda x: isinstance(x, str) and x.endswith("Iterator::next")), V("args")), c)
        if nx is None:
            # candidate guard: param vs const
            for pat, norm_op in ((("op", V("op"), ("param", V("p")), ("const", V("c"))), None),
                                 (("op", V("op"), ("const", V("c")), ("param", V("p"))), "flip")):
                e = match(pat, c)
                if e is not None and truth:
                    op = e["op"]
                    if norm_op == "flip":
                        op = {"Lt": "Gt", "Le": "Ge", "Gt": "Lt", "Ge": "Le"}.get(op, op)
                    if op in ("Le", "Lt"):
                        guard = {"param": e["p"], "op": op, "bound": e["c"]}
            continue
        if scan is None and truth:
            scan = c
    if scan is None:
        return None
    e, nxt = find(("call", V("callee", lambda x: isinstance(x, str) and x.endswith("Iterator::next")), V("args")), scan)
    src, rev = _strip_iter(e["args"][0])
    item = ("field", ("variant", nxt, "Some"), 0)
    out = {"fn": fn.key, "guard": guard, "rev": rev, "ret": rt, "cond": scan, "return_block": rb}
    if src[0] == "slice":
        tab = _const_table(crate, src[1])
        if tab is None:
            return None
        out["table"] = tab[0]
        rows = tab[1]
        # condition: row.key OP param
        row = ("deref", item)
        m = match(("op", V("op"), ("field", row, V("kc")), ("param", V("p"))), scan)
        flip = False
        if m is None:
            m = match(("op", V("op"), ("param", V("p")), ("field", row, V("kc"))), scan)
            flip = True
        if m is None:
            return None
        op = m["op"]
        if flip:
            op = {"Lt": "Gt", "Le": "Ge", "Gt": "Lt", "Ge": "Le"}.get(op, op)
        out.update(kind="table", key_col=m["kc"], op=op, param=m["p"])
        mv = match(("field", row, V("vc")), rt)
        if mv is None and rt == row:
            # the whole row is returned (a helper shared by several lookups): column chosen by the caller
            out["val_col"] = None
            out["keys"] = [r[m["kc"]] for r in rows]
            out["vals"] = None
            out["rows"] = len(rows)
            out["table_rows"] = rows
            return out
        if mv is None:
            return None
        out["val_col"] = mv["vc"]
        out["keys"] = [r[m["kc"]] for r in rows]
        out["vals"] = [r[mv["vc"]] for r in rows]
        out["rows"] = len(rows)
        return out
    if src[0] == "range":
        # index scan over a local constant array
        m = match(("op", V("op"), ("param", V("p")), ("index", V("arr"), item)), scan)
        if m is None:
            return None
        tab = _const_table(crate, m["arr"])
        if tab is None:
            return None
        lo = src[1]
        hi = src[2]
        if lo[0] != "const":
            return None
        n = len(tab[1])
        if hi[0] == "const":
            hiv = hi[1]
        elif hi[0] == "len" or (hi[0] == "call" and isinstance(hi[1], str) and hi[1].endswith("::len")):
            hiv = n
        else:
            return None
        out.update(kind="index", table=tab[0], op=m["op"], param=m["p"], keys=tab[1][lo[1]:hiv], lo=lo[1], hi=hiv,
                   rows=n, item=item)
        return out
    return None


def exhaustion_holds(sc):
    """does some scanned row satisfy the scan condition for every argument admitted by the guard?"""
    g = sc.get("guard")
    if g is None or g["param"] != sc["param"]:
        return False, "no entry assert bounding the scanned argument"
    keys = sc["keys"]
    if not keys:
        return False, "empty table"
    bound = g["bound"]
    amax = bound if g["op"] == "Le" else bound - 1     # largest admitted argument
    if sc["kind"] == "table":
        # condition: key OP arg, must hold for arg = any value <= amax: need key >= amax (Ge) / key > amax (Gt)
        if sc["op"] == "Ge":
            ok = max(keys) >= amax
        elif sc["op"] == "Gt":
            ok = max(keys) > amax
        else:
            return False, "scan comparison %s is not an upper-bound search" % sc["op"]
        return ok, "max key %d vs largest admitted argument %d" % (max(keys), amax)
    if sc["kind"] == "index":
        # condition: arg OP key with OP in (Lt, Le)
        if sc["op"] == "Lt":
            ok = max(keys) > amax
        elif sc["op"] == "Le":
            ok = max(keys) >= amax
        else:
            return False, "scan comparison %s is not an upper-bound search" % sc["op"]
        return ok, "max key %d vs largest admitted argument %d" % (max(keys), amax)
    return False, "unknown scan kind"


def first_match_is_smallest(sc):
    """ascending scan over strictly increasing keys returns the smallest key >= k"""
    keys = sc["keys"]
    inc = all(keys[i] < keys[i + 1] for i in range(len(keys) - 1))
    return inc and not sc["rev"]


def match_delegate(fn, scans):
    """a lookup that delegates to a whole-row scan:  f(k) = helper(k).col  (optionally behind its own entry assert)"""
    tb = terms.TermBuilder(fn)
    rts = tb.return_terms()
    if len(rts) != 1:
        return None
    rb, rt = rts[0]
    rt0 = terms.strip_casts(rt)
    m = match(("field", ("call", V("h"), (("param", V("p")),)), V("vc")), rt0)
    if m is None:       # the helper hands out a reference to the (static) row
        m = match(("field", ("deref", ("call", V("h"), (("param", V("p")),))), V("vc")), rt0)
    if m is None or m["h"] not in scans or scans[m["h"]].get("val_col") is not None or scans[m["h"]]["kind"] != "table":
        return None
    h = scans[m["h"]]
    if not isinstance(m["vc"], int) or h["param"] != 1:
        return None
    guard = None
    for c, truth in tb.path_conditions(rb):
        for pat, flip in ((("op", V("op"), ("param", V("p")), ("const", V("c"))), False),
                          (("op", V("op"), ("const", V("c")), ("param", V("p"))), True)):
            e = match(pat, c)
            if e is not None and truth and e["p"] == m["p"]:
                o = e["op"]
                if flip:
                    o = {"Lt": "Gt", "Le": "Ge", "Gt": "Lt", "Ge": "Le"}.get(o, o)
                if o in ("Le", "Lt"):
                    guard = {"param": e["p"], "op": o, "bound": e["c"]}
    out = dict(h)
    out.update(fn=fn.key, guard=guard or h.get("guard"), ret=rt, return_block=rb, param=m["p"], val_col=m["vc"],
               vals=[r[m["vc"]] for r in h["table_rows"]], via=m["h"])
    return out
