"""Sequences in comprehension normal form.

A vector built by a function is a concatenation of segments; a segment is an indexed family
    { value(ix) | ix in 0..count, cond(ix) }
Both ways of writing it reduce to the same segments:
    for x in SRC { if C(x) { v.push(F(x)) } }                         (loop + push)
    SRC.filter(|x| C(x)).map(|x| F(x)).collect() / v.extend(..)       (iterator chain, closures applied)
so a rule states WHICH elements a vector must contain and does not depend on the idiom.

Streams understood:  a..b,  slice.iter() / into_iter(),  .enumerate() (before any filter),  .map(c),  .filter(c),
.copied()/.cloned(),  .chain(s).  Anything else (take, skip, rev, step_by, zip ...) is not a stream this module
understands: `parse_stream` returns None and the rule using it reports the construct.
"""
from . import terms as T
from .terms import V, match

IX = ("ix",)
IXO = ("ixo",)      # index of the enclosing sequence in a nested segment
# base terms of slices whose elements are Options: `.flatten()` over their iterator skips the Nones (filled in by rules)
OPTION_BASES = set()


def _N(t):
    def f(x):
        # v[i] through the Index trait is the element reference
        if x[0] == "call" and isinstance(x[1], str) and x[1].split("::")[-1] in ("index", "index_mut", "get_unchecked", "get_unchecked_mut") \
                and len(x[2]) == 2 and ("Index" in x[1] or "slice" in x[1] or "get_unchecked" in x[1]):
            return ("ref", ("index", _strip_refs(x[2][0]), x[2][1]))
        return x
    return T.normalise(T.strip_casts(T.simplify(T.map_term(T.simplify(t), f))))


def _strip_refs(t):
    while isinstance(t, tuple) and t and t[0] in ("ref", "deref", "deref*"):
        t = t[1]
    return t


def subst(t, what, by):
    return T.map_term(t, lambda x: by if x == what else x)


def apply_closure(crate, clo, arg, arg_by_ref=False):
    """beta-reduction: the closure's return term with its environment and argument substituted (closures are treated as
    pure functions of their captures and argument); None when the body is not available"""
    if clo[0] in ("ref",):
        clo = clo[1]
    if clo[0] != "agg" or not str(clo[1]).startswith("closure:"):
        return None
    g = crate.fns.get(clo[1][len("closure:"):])
    if g is None or g.argc != 2:
        return None
    body = T.TermBuilder(g).return_term()
    env_ty = g.locals[1]["ty"] if len(g.locals) > 1 else {}
    env = ("ref", clo) if env_ty.get("k") == "ref" else clo
    a = ("ref", arg) if arg_by_ref else arg

    def f(x):
        if x == ("param", 1):
            return env
        if x == ("param", 2):
            return a
        return x
    return T.simplify(T.map_term(body, f))


def seg(count, value, cond=None):
    return {"count": count, "value": value, "cond": cond}


def stream_or_elems(crate, t):
    """an IntoIterator argument: an iterator expression, or else the elements of a collection-valued expression"""
    s = parse_stream(crate, t)
    if s is not None:
        return s
    base = _strip_refs(t)
    if base[0] == "call" and isinstance(base[1], str):
        # vec![x; n]
        if base[1].endswith("vec::from_elem") and len(base[2]) == 2:
            return [seg(base[2][1], base[2][0])]
        # v[a..], v[a..b], v[..b]
        if base[1].split("::")[-1] in ("index", "index_mut") and len(base[2]) == 2 and base[2][1][0] == "agg":
            r = base[2][1]
            x = _strip_refs(base[2][0])
            if r[1].endswith("ops::RangeFrom") and len(r[2]) == 1:
                return [seg(("op", "Sub", ("len", x), r[2][0]), ("index", x, ("op", "Add", r[2][0], IX)))]
            if r[1].endswith("ops::Range") and len(r[2]) == 2:
                return [seg(("op", "Sub", r[2][1], r[2][0]), ("index", x, ("op", "Add", r[2][0], IX)))]
            if r[1].endswith("ops::RangeTo") and len(r[2]) == 1:
                return [seg(r[2][0], ("index", x, IX))]
        # Vec::from(slice) / slice.to_vec() / to_owned(): the same elements
        if base[1].split("::")[-1] in ("from", "to_vec", "to_owned", "into") and len(base[2]) == 1:
            return stream_or_elems(crate, base[2][0])
    if base[0] in ("call", "field", "param", "index"):
        return [seg(("len", base), ("index", base, IX))]
    return None


def parse_stream(crate, t):
    """list of segments for an iterator-valued term, or None"""
    t0 = t
    while t[0] in ("ref", "deref", "deref*"):
        t = t[1]
    if t[0] == "agg" and t[1] == "adt:std::ops::Range" and len(t[2]) == 2:
        lo, hi = t[2]
        return [seg(("op", "Sub", hi, lo), ("op", "Add", lo, IX))]
    if t[0] != "call" or not isinstance(t[1], str):
        return None
    name = t[1]
    a = t[2]
    short = name.split("::")[-1]
    if short == "into_iter" and len(a) == 1:
        inner = parse_stream(crate, a[0])
        if inner is not None:
            return inner
        base = _strip_refs(a[0])
        by_ref = a[0][0] == "ref"
        v = ("index", base, IX)
        return [seg(("len", base), ("ref", v) if by_ref else v)]
    if short in ("iter", "iter_mut") and len(a) == 1:
        base = _strip_refs(a[0])
        return [seg(("len", base), ("ref", ("index", base, IX)))]
    if name.endswith("Iterator::enumerate") and len(a) == 1:
        s = parse_stream(crate, a[0])
        if s is None or len(s) != 1 or s[0]["cond"] is not None:
            return None
        return [seg(s[0]["count"], ("agg", "tuple", (IX, s[0]["value"])))]
    if name.endswith("Iterator::map") and len(a) == 2:
        s = parse_stream(crate, a[0])
        if s is None:
            return None
        out = []
        for g in s:
            v = apply_closure(crate, a[1], g["value"])
            if v is None:
                return None
            out.append(seg(g["count"], v, g["cond"]))
        return out
    if name.endswith("Iterator::filter") and len(a) == 2:
        s = parse_stream(crate, a[0])
        if s is None:
            return None
        out = []
        for g in s:
            c = apply_closure(crate, a[1], g["value"], arg_by_ref=True)
            if c is None:
                return None
            out.append(seg(g["count"], g["value"], c if g["cond"] is None else ("op", "BitAnd", g["cond"], c)))
        return out
    if (name.endswith("Iterator::copied") or name.endswith("Iterator::cloned")) and len(a) == 1:
        s = parse_stream(crate, a[0])
        if s is None:
            return None
        return [seg(g["count"], ("deref", g["value"]), g["cond"]) for g in s]
    if name.endswith("Iterator::rev") and len(a) == 1:
        s = parse_stream(crate, a[0])
        if s is None or any("inner" in g for g in s):
            return None
        out = []
        for g in reversed(s):       # element ix of the reversed stream is element count-1-ix of the original
            j = ("op", "Sub", ("op", "Sub", g["count"], ("const", 1)), IX)
            out.append(seg(g["count"], subst(g["value"], IX, j), subst(g["cond"], IX, j) if g["cond"] is not None else None))
        return out
    if name.endswith("Iterator::flatten") and len(a) == 1:
        s = parse_stream(crate, a[0])
        if s is None or len(s) != 1 or "inner" in s[0] or s[0]["cond"] is not None:
            return None
        v = s[0]["value"]
        el = _strip_refs(v)
        if el[0] == "index" and el[1] in OPTION_BASES:
            some = ("field", ("variant", el, "Some"), 0)
            return [seg(s[0]["count"], ("ref", some) if v[0] == "ref" else some, ("is-some", el))]
        return None
    if name.endswith("Iterator::flat_map") and len(a) == 2:
        s = parse_stream(crate, a[0])
        if s is None or len(s) != 1 or "inner" in s[0]:
            return None
        outer_val = subst(s[0]["value"], IX, IXO)
        body = apply_closure(crate, a[1], outer_val)
        inner = stream_or_elems(crate, body) if body is not None else None
        if inner is None or any("inner" in g for g in inner):
            return None
        return [{"count": s[0]["count"], "value": None, "cond": subst(s[0]["cond"], IX, IXO) if s[0]["cond"] is not None else None,
                 "inner": inner}]
    if name.endswith("Iterator::chain") and len(a) == 2:
        s1, s2 = parse_stream(crate, a[0]), stream_or_elems(crate, a[1])
        if s1 is None or s2 is None:
            return None
        return s1 + s2
    return None


def norm_seg(g, roles=None):
    def n(x):
        if x is None:
            return None
        x = _N(x)
        x = T.map_term(x, lambda y: ("len", _strip_refs(y[2][0])) if (y[0] == "call" and isinstance(y[1], str) and y[1].endswith("::len")
                                                                      and len(y[2]) == 1) else y)
        return _N(x)
    from .loops import linear
    c = n(g["count"])
    if c[0] == "op" and c[1] in ("Add", "Sub"):
        c = linear(c)
    out = {"count": c, "value": n(g["value"]), "cond": n(g["cond"])}
    if "inner" in g:
        out["inner"] = [norm_seg(x) for x in g["inner"]]
    return out


def vector_segments(crate, f, ls, is_target, conds_of, scope_loop=None):
    """segments appended to the vector selected by is_target(base term of the &mut Vec argument), in program order.
    ls: LoopSummary whose sink reports push/extend/collect as "push"/"extend"; conds_of(block) -> DNF of path conditions.
    Returns (segments, problems)."""
    segs = []
    problems = []
    seen_init = False
    events = ls.events
    if scope_loop is not None:
        # the vector lives inside one iteration of an enclosing loop: that loop is the top level here
        events = [dict(e, loop=None) if e["loop"] == scope_loop else e for e in ls.events]
    for e in events:
        if e["sink"] not in ("push", "extend", "extend_from_slice", "resize"):
            continue
        base = _strip_refs(e["args"][0])
        if not is_target(base):
            continue
        if not seen_init:
            seen_init = True
            # initial contents: collect(stream), a copy of a slice, or an empty constructor
            b0 = base
            if b0[0] == "call" and isinstance(b0[1], str) and (b0[1].endswith("Iterator::collect") or b0[1].endswith("::from_iter")):
                s = parse_stream(crate, b0[2][0])
                if s is None:
                    problems.append("initial collect() over an iterator that is not understood")
                else:
                    segs.extend(s)
            elif b0[0] == "call" and isinstance(b0[1], str) and b0[1].split("::")[-1] in ("from", "to_vec", "to_owned", "into") and len(b0[2]) == 1:
                s = stream_or_elems(crate, b0)
                if s is None:
                    problems.append("initial contents not understood")
                else:
                    segs.extend(s)
            elif b0[0] == "call" and isinstance(b0[1], str) and b0[1].split("::")[-1] in ("new", "with_capacity"):
                pass
            elif b0[0] == "call" and isinstance(b0[1], str) and b0[1].endswith("vec::from_elem"):
                segs.extend(stream_or_elems(crate, b0))
        if e["sink"] == "extend_from_slice" and e["loop"] is None:
            s = stream_or_elems(crate, e["args"][1])
            if s is None:
                problems.append("extend_from_slice() of something not understood")
            else:
                segs.extend(s)
            continue
        if e["sink"] == "resize" and e["loop"] is None:
            # v.resize(n, x): n - len(v) copies of x; len(v) is the sum of what was appended so far
            total = ("const", 0)
            for g in segs:
                if "inner" in g or g["cond"] is not None:
                    total = None
                    break
                total = ("op", "Add", total, g["count"])
            if total is None:
                problems.append("resize() after a filtered or nested segment")
                continue
            newlen = T.map_term(e["args"][1], lambda y: total if (y[0] == "call" and isinstance(y[1], str) and y[1].endswith("::len")
                                                                  and len(y[2]) == 1 and _strip_refs(y[2][0]) == base) else y)
            segs.append(seg(("op", "Sub", newlen, total), e["args"][2]))
            continue
        if e["loop"] is not None:
            group = [x for x in events if x["loop"] == e["loop"] and x["sink"] in ("push", "extend") and is_target(_strip_refs(x["args"][0]))]
            if not (len(group) == 1 and e["sink"] == "push"):
                # several appends per iteration: one nested segment for the loop
                if group[0] is not e:
                    continue
                lp = ls.loops[e["loop"]]
                st = parse_stream(crate, lp["source"]) if (lp["parent"] is None and not lp["conds"] and lp["source_raw"] is not None) else None
                if st is None or len(st) != 1 or "inner" in st[0]:
                    problems.append("appends in a loop that is not understood")
                    continue
                item = ("item", lp["id"])
                oval = subst(st[0]["value"], IX, IXO)
                inner = []
                for x in group:
                    if any(T.find(item, c) is not None for cj in conds_of(x["block"]) for c, v in cj):
                        problems.append("conditional append inside a loop with several appends")
                    arg = subst(x["args"][1], item, oval)
                    if x["sink"] == "push":
                        inner.append(seg(("const", 1), arg))
                    else:
                        si = parse_stream(crate, arg)
                        if si is None:
                            # the elements of a vector-valued expression, in order
                            base_ = _strip_refs(arg)
                            si = [seg(("len", base_), ("index", base_, IX))]
                        inner.extend(si)
                segs.append({"count": st[0]["count"], "value": None,
                             "cond": subst(st[0]["cond"], IX, IXO) if st[0]["cond"] is not None else None, "inner": inner})
                continue
        if e["sink"] == "extend":
            s = stream_or_elems(crate, e["args"][1])
            if s is None or e["loop"] is not None:
                problems.append("extend() with an iterator that is not understood")
            else:
                segs.extend(s)
            continue
        # push inside a loop: the loop's stream gives count and item
        if e["loop"] is None:
            segs.append(seg(("const", 1), e["args"][1]))
            continue
        lp = ls.loops[e["loop"]]
        if lp["parent"] is not None or lp["conds"] or lp["source_raw"] is None:
            problems.append("push inside a nested or conditional loop")
            continue
        s = parse_stream(crate, lp["source"])
        if s is None or len(s) != 1:
            problems.append("push in a loop over an iterator that is not understood")
            continue
        item = ("item", lp["id"])
        val = subst(e["args"][1], item, s[0]["value"])
        cond = s[0]["cond"]
        dnf = conds_of(e["block"])
        inner = []
        for cj in dnf:
            cs = [(c, v) for c, v in cj if T.find(item, c) is not None]
            inner.append(frozenset(cs))
        inner = list(dict.fromkeys(inner))
        if len(inner) > 1:
            problems.append("push under a disjunction of conditions")
            continue
        for c, v in (sorted(inner[0], key=repr) if inner else []):
            c2 = subst(c, item, s[0]["value"])
            c2 = c2 if v else ("un", "Not", c2)
            cond = c2 if cond is None else ("op", "BitAnd", cond, c2)
        segs.append(seg(s[0]["count"], val, cond))
    return segs, problems


def returned_segments(crate, f, conds_of_factory):
    """segments of the Vec a function returns: collect(stream), or a vector filled by push/extend"""
    from . import loops

    def sink(ct, t):
        if ct[0] == "call" and isinstance(ct[1], str):
            if ct[1].endswith("Vec::<T, A>::push"):
                return "push"
            if ct[1].split("::")[-1] == "extend":
                return "extend"
        return None
    ls = loops.LoopSummary(f, sink)
    rt = ls.canon(T.TermBuilder(f).return_term())
    base = _strip_refs(rt)
    if base[0] == "call" and isinstance(base[1], str) and (base[1].endswith("Iterator::collect") or base[1].endswith("::from_iter")) \
            and not any(_strip_refs(e["args"][0]) == base for e in ls.events):
        s = parse_stream(crate, base[2][0])
        return (s, []) if s is not None else ([], ["the returned collect() is over an iterator that is not understood"])
    return vector_segments(crate, f, ls, lambda b: b == base, conds_of_factory(ls))


def parse_first(crate, t):
    """first-match normal form of an Option-valued (or unwrapped) term:
         stream.find(p) [.map(f)] [.copied()] [.unwrap()/.expect()/.unwrap_or_else(diverging)] / (.. as Some).0
       -> {"count", "cond"(ix), "result"(ix), "unwrapped": bool}: the result for the smallest ix < count with cond(ix).
       None when the term is not of that form."""
    if t[0] in ("ref",):
        return None
    if t[0] == "field" and t[2] == 0 and t[1][0] == "variant" and t[1][2] == "Some":
        r = parse_first(crate, t[1][1])
        if r is not None:
            r["unwrapped"] = True
        return r
    if t[0] == "field" or t[0] in ("deref", "deref*"):
        # a projection of the unwrapped match
        r = parse_first(crate, t[1])
        if r is None or not r.get("unwrapped"):
            return None
        r["result"] = ("field", r["result"], t[2]) if t[0] == "field" else ("deref", r["result"])
        return r
    if t[0] != "call" or not isinstance(t[1], str):
        return None
    name, a = t[1], t[2]
    short = name.split("::")[-1]
    if "Option" in name and short in ("unwrap", "expect", "unwrap_or_else", "unwrap_unchecked") and a:
        r = parse_first(crate, a[0])
        if r is not None:
            r["unwrapped"] = True
            if short == "unwrap_or_else":
                r["or_else"] = a[1]
        return r
    if "Option" in name and short == "map" and len(a) == 2:
        r = parse_first(crate, a[0])
        if r is None:
            return None
        v = apply_closure(crate, a[1], r["result"])
        if v is None:
            return None
        r["result"] = v
        return r
    if "Option" in name and short in ("copied", "cloned") and len(a) == 1:
        r = parse_first(crate, a[0])
        if r is not None:
            r["result"] = ("deref", r["result"])
        return r
    if name.endswith("Iterator::find") and len(a) == 2:
        s = parse_stream(crate, a[0])
        if s is None or len(s) != 1:
            return None
        c = apply_closure(crate, a[1], s[0]["value"], arg_by_ref=True)
        if c is None:
            return None
        cond = c if s[0]["cond"] is None else ("op", "BitAnd", s[0]["cond"], c)
        return {"count": s[0]["count"], "cond": cond, "result": s[0]["value"], "unwrapped": False}
    return None


def segments_of_value(crate, f, ls, base, conds_of, scope_loop=None):
    """segments of a Vec-valued term of function f (ls must report push/extend): collect(stream) or a filled vector"""
    base = _strip_refs(base)
    if base[0] == "call" and isinstance(base[1], str) and (base[1].endswith("Iterator::collect") or base[1].endswith("::from_iter")) \
            and not any(e["sink"] in ("push", "extend") and _strip_refs(e["args"][0]) == base for e in ls.events):
        s = parse_stream(crate, base[2][0])
        return (s, []) if s is not None else ([], ["collect() over an iterator that is not understood"])
    return vector_segments(crate, f, ls, lambda b: b == base, conds_of, scope_loop)
