"""Arithmetic on constants the compiler already evaluated (no repository code is run)."""

POLY = 0x11D  # x^8 + x^4 + x^3 + x^2 + 1  (RFC 6330 section 5.7.2)


def gf_mul(a, b):
    """carry-less multiply modulo POLY, written independently of the crate"""
    r = 0
    while b:
        if b & 1:
            r ^= a
        b >>= 1
        a <<= 1
        if a & 0x100:
            a ^= POLY
    return r


def gf_pow2(i):
    r = 1
    for _ in range(i):
        r = gf_mul(r, 2)
    return r


def is_prime(n):
    if n < 2:
        return False
    if n % 2 == 0:
        return n == 2
    d = 3
    while d * d <= n:
        if n % d == 0:
            return False
        d += 2
    return True


def next_prime_ge(n):
    while not is_prime(n):
        n += 1
    return n


def fingerprint(obj):
    import hashlib, json
    return hashlib.sha256(json.dumps(obj, separators=(",", ":")).encode()).hexdigest()[:16]
