"""Backward def-use reconstruction of values into terms (engine B: terms + match).

A term is a nested tuple:
  ("param", i)                     i-th argument (1-based local index)
  ("const", value)                 integer / bool constant
  ("item", path)                   named const / static of the crate
  ("fn", path)                     function item
  ("op", name, a, b)               MIR binary operator (Add, Sub, ..., Lt, ...); *WithOverflow(.0) == plain op
  ("un", name, a)
  ("cast", to_ty, a)               narrowing or sign-changing integer cast (widening casts are transparent)
  ("field", a, i) ("deref", a) ("index", a, i) ("variant", a, name) ("discr", a) ("ref", a) ("len", a)
  ("agg", kind, (fields...))       tuple / struct / array aggregate
  ("call", callee, (args...))      call result (callee = resolved path when known, library paths normalised)
  ("ite", cond, a, b)              value selected by a two-way branch
  ("phi", (a, b, ...))             several reaching definitions, no simple condition (sorted, duplicate free)
  ("mu", local, head)              loop-carried value of `local` at loop head `head`
  ("unk", tag)
Nothing is executed; terms are purely syntactic summaries of the MIR data flow.
"""
from . import mir
from .models import normpath

COMMUTATIVE = {"Add", "Mul", "BitAnd", "BitOr", "BitXor", "Eq", "Ne"}


def _is_store(lhs):
    """assignment through a reference / pointer held in the local: a memory store, not a definition of the local"""
    return bool(lhs["proj"]) and lhs["proj"][0]["p"] == "deref"


class TermBuilder:
    def __init__(self, fn, crate=None, widening_transparent=True, keep_casts=False):
        self.fn = fn
        self.crate = crate or fn.crate
        self.cfg = fn.cfg
        self.wt = widening_transparent
        self.keep_casts = keep_casts
        self._defs = None
        self._memo = {}
        self._entry_memo = {}
        self._in_progress = set()
        self.heads = set()
        for b in self.cfg.reach:
            for s in self.cfg.succ[b]:
                if self.cfg.dominates(s, b):
                    self.heads.add(s)

    # -- definitions ---------------------------------------------------------
    @property
    def defs(self):
        """local -> list of (block, idx) where idx = statement index or 'T' (call destination)"""
        if self._defs is None:
            d = {}
            for b in self.fn.blocks:
                if b["cleanup"] or b["i"] not in self.cfg.reach:
                    continue
                for i, s in enumerate(b["stmts"]):
                    if s["s"] == "assign" and not _is_store(s["lhs"]):
                        d.setdefault(s["lhs"]["l"], []).append((b["i"], i, not s["lhs"]["proj"]))
                t = b["term"]
                if t["t"] == "call":
                    d.setdefault(t["dest"]["l"], []).append((b["i"], "T", not t["dest"]["proj"]))
            self._defs = d
        return self._defs

    def _def_in_block(self, blk, local, before):
        """last full def of local in block blk strictly before position `before` (stmt index; None = end incl. term)"""
        b = self.fn.blocks[blk]
        stmts = b["stmts"]
        hi = len(stmts) if before is None or before == "T" else before
        if before is None:
            t = b["term"]
            if t["t"] == "call" and t["dest"]["l"] == local:
                return (blk, "T", not t["dest"]["proj"])
        for i in range(hi - 1, -1, -1):
            s = stmts[i]
            if s["s"] == "assign" and s["lhs"]["l"] == local and not _is_store(s["lhs"]):
                return (blk, i, not s["lhs"]["proj"])
        return None

    def reaching(self, blk, before, local):
        """set of def sites of `local` reaching the point (blk, before); ('ENTRY',) for the initial value"""
        d = self._def_in_block(blk, local, before)
        if d is not None:
            return {d}
        return self._reach_entry(blk, local)

    def _reach_entry(self, blk, local):
        key = (blk, local)
        if key in self._entry_memo:
            return self._entry_memo[key]
        # iterative over predecessors
        seen = set()
        out = set()
        st = [blk]
        while st:
            x = st.pop()
            if x in seen:
                continue
            seen.add(x)
            if x == 0:
                out.add(("ENTRY",))
            for p in self.cfg.pred[x]:
                d = self._def_in_block(p, local, None)
                if d is not None:
                    out.add(d)
                else:
                    st.append(p)
        self._entry_memo[key] = out
        return out

    # -- terms -----------------------------------------------------------------
    def operand(self, blk, pos, o):
        if o.get("o") == "const":
            return self.const(o)
        return self.place(blk, pos, o)

    def const(self, o):
        if "fn" in o:
            return ("fn", normpath(o["fn"]))
        if "v" in o:
            return ("const", o["v"])
        if "promoted" in o:
            return self.promoted(o["promoted"])
        if "uneval" in o:
            c = self.crate.consts.get(o["uneval"])
            if c is not None and isinstance(c["value"], int):
                return ("const", c["value"])
            return ("item", o["uneval"])
        if "static" in o:
            return ("ref", ("item", o["static"]))
        if "strlit" in o:
            return ("str", o["strlit"])
        return ("unk", "const:" + str(o.get("txt"))[:40])

    def promoted(self, idx):
        pb = self.fn.f["promoted"][idx]
        vals = {}
        for b in pb["blocks"]:
            for s in b["stmts"]:
                if s["s"] != "assign" or s["lhs"]["proj"]:
                    continue
                rv = s["rv"]
                if rv["r"] == "use":
                    a = rv["a"]
                    v = self.const(a) if a.get("o") == "const" else vals.get(a["l"], ("unk", "prom"))
                elif rv["r"] == "ref":
                    v = ("ref", vals.get(rv["p"]["l"], ("unk", "prom")))
                elif rv["r"] == "aggregate":
                    v = ("agg", rv["agg"], tuple(self.const(x) if x.get("o") == "const" else vals.get(x["l"], ("unk", "prom"))
                                                 for x in rv["ops"]))
                else:
                    v = ("unk", "prom")
                vals[s["lhs"]["l"]] = v
        return vals.get(0, ("unk", "prom"))

    def place(self, blk, pos, p):
        t = self.local(blk, pos, p["l"])
        for e in p["proj"]:
            k = e["p"]
            if k == "deref":
                t = ("deref", t)
            elif k == "field":
                t = self.mk_field(t, e["i"])
            elif k == "index":
                t = ("index", t, self.local(blk, pos, e["l"]))
            elif k == "cindex":
                t = ("index", t, ("const", e["off"]))
            elif k == "downcast":
                t = ("variant", t, e["variant"])
            else:
                t = ("unk", k)
        return t

    def mk_field(self, t, i):
        if t[0] == "op" and t[1].endswith("WithOverflow"):
            if i == 0:
                return self.mk_op(t[1].replace("WithOverflow", ""), t[2], t[3])
            return ("overflow", t)
        if t[0] == "agg" and i < len(t[2]):
            return t[2][i]
        return ("field", t, i)

    def mk_op(self, op, a, b):
        op = op.replace("Unchecked", "")
        if op in COMMUTATIVE and repr(b) < repr(a):
            a, b = b, a
        return ("op", op, a, b)

    def local(self, blk, pos, l):
        key = (blk, pos, l)
        if key in self._memo:
            return self._memo[key]
        rs = self.reaching(blk, pos, l)
        full = [r for r in rs if r == ("ENTRY",) or r[2]]
        partial = [r for r in rs if r != ("ENTRY",) and not r[2]]
        if partial:
            # the local is (also) written through a projection: give up on a precise term, but
            # keep identity of the local so that equal uses compare equal
            t = ("unk", "partial:_%d@%d" % (l, min(r[0] for r in partial)))
            self._memo[key] = t
            return t
        terms = []
        full = sorted(full, key=lambda x: (str(x[0]), str(x[1]) if len(x) > 1 else ""))
        for r in full:
            terms.append(self.def_term(r, l))
        uniq = list(dict.fromkeys(terms))
        if len(uniq) == 1:
            t = uniq[0]
        elif len(uniq) == 2 and len(full) == 2:
            t = self.try_ite(full, terms, blk) or self.try_ite_paths(full, terms, blk) or ("phi", tuple(sorted(terms, key=repr)))
        else:
            t = ("phi", tuple(sorted(terms, key=repr)))
        self._memo[key] = t
        return t

    def def_term(self, r, l):
        if r == ("ENTRY",):
            if 1 <= l <= self.fn.argc:
                return ("param", l)
            return ("uninit", l)
        blk, idx, _ = r
        key = ("def", blk, idx)
        if key in self._memo:
            return self._memo[key]
        if key in self._in_progress:
            return ("mu", l, blk)
        self._in_progress.add(key)
        try:
            b = self.fn.blocks[blk]
            if idx == "T":
                t = self.call_term(blk, b["term"])
            else:
                s = b["stmts"][idx]
                t = self.rvalue(blk, idx, s["rv"])
        finally:
            self._in_progress.discard(key)
        self._memo[key] = t
        return t

    def call_term(self, blk, t):
        callee = t.get("resolved") or t.get("callee")
        args = tuple(self.operand(blk, "T", a) for a in t["args"])
        if callee is None:
            return ("call", ("indirect", self.operand(blk, "T", t["fnop"])), args)
        c = normpath(callee)
        g = normpath(t.get("callee"))
        # integer conversions are casts
        if g in ("std::convert::Into::into", "std::convert::From::from") and len(args) == 1:
            dty = t["dest"]["ty"]
            from .absint import int_ty_of_str
            if int_ty_of_str(dty):
                aty = t["args"][0].get("ty") if isinstance(t["args"][0].get("ty"), str) else None
                return self.mk_cast(dty, args[0], aty)
        if g in ("std::ops::Deref::deref", "std::ops::DerefMut::deref_mut"):
            return ("deref*", args[0])
        if c.startswith("std::arch::") and "::<" in (t.get("callee_full") or ""):
            # const generic arguments of intrinsics (shift counts, ...) are part of the operation
            c = normpath(t["callee_full"])
            return ("call", c, args)
        if g == "std::iter::Iterator::next":
            # one `next` call site = one loop: keep sites apart even when their sources are equal terms
            return ("call", g, args + (("at", blk),))
        return ("call", c if (t.get("resolved_local") or not t.get("trait")) else g, args)

    def mk_cast(self, to, a, frm=None):
        from .absint import int_ty_of_str
        ti = int_ty_of_str(to)
        fi = int_ty_of_str(frm) if frm else None
        if self.wt and ti and fi and not self.keep_casts:
            # value preserving: target range includes source range
            tl, th = (-(1 << (ti[0] - 1)), (1 << (ti[0] - 1)) - 1) if ti[1] else (0, (1 << ti[0]) - 1)
            fl, fh = (-(1 << (fi[0] - 1)), (1 << (fi[0] - 1)) - 1) if fi[1] else (0, (1 << fi[0]) - 1)
            if tl <= fl and fh <= th:
                return a
        if a[0] == "const" and ti and isinstance(a[1], int):
            tl, th = (-(1 << (ti[0] - 1)), (1 << (ti[0] - 1)) - 1) if ti[1] else (0, (1 << ti[0]) - 1)
            if tl <= a[1] <= th:
                return a
        return ("cast", to, a)

    def rvalue(self, blk, idx, rv):
        r = rv["r"]
        op = lambda o: self.operand(blk, idx, o)
        if r == "use":
            return op(rv["a"])
        if r == "binop":
            aty = rv.get("aty") or {}
            if aty.get("k") == "int" and aty.get("signed") is False:
                # comparisons of an unsigned value with zero that are decided by the type (range patterns `0..=n`)
                za = rv["a"].get("o") == "const" and rv["a"].get("v") == 0
                zb = rv["b"].get("o") == "const" and rv["b"].get("v") == 0
                if (rv["op"] == "Le" and za) or (rv["op"] == "Ge" and zb):
                    return ("const", 1)
                if (rv["op"] == "Gt" and za) or (rv["op"] == "Lt" and zb):
                    return ("const", 0)
            return self.mk_op(rv["op"], op(rv["a"]), op(rv["b"])) if not rv["op"].endswith("WithOverflow") else \
                ("op", rv["op"], op(rv["a"]), op(rv["b"]))
        if r == "unop":
            if rv["op"] == "PtrMetadata":
                return ("len", op(rv["a"]))
            return ("un", rv["op"], op(rv["a"]))
        if r == "cast":
            a = op(rv["a"])
            k = rv["kind"]
            if k == "IntToInt":
                return self.mk_cast(rv["to"]["s"], a, rv["from"]["s"])
            if k.startswith("PointerCoercion") or k in ("PtrToPtr", "Transmute"):
                if k == "PtrToPtr" and rv["to"].get("k") == "ptr" and rv["from"].get("k") == "ptr" \
                        and rv["to"]["to"].get("s") != rv["from"]["to"].get("s"):
                    return ("ptrcast", rv["to"]["to"].get("s"), a)
                return a
            return ("cast", rv["to"]["s"], a)
        if r in ("ref", "rawptr"):
            p = rv["p"]
            t = self.place(blk, idx, p)
            if t[0] == "deref":
                return t[1]       # &*x == x
            return ("ref", t)
        if r == "aggregate":
            kind = rv["agg"]
            if kind == "adt":
                kind = "adt:" + normpath(rv["adt"]) + ("::" + rv["variant"] if rv.get("vi", 0) or rv["variant"] not in rv["adt"] else "")
            elif kind == "closure":
                kind = "closure:" + rv["def"]
            return ("agg", kind, tuple(op(o) for o in rv["ops"]))
        if r == "discr":
            return ("discr", self.place(blk, idx, rv["p"]))
        if r == "repeat":
            return ("repeat", op(rv["a"]), rv.get("n"))
        return ("unk", r)

    # -- conditions ---------------------------------------------------------------
    def branch_cond(self, blk):
        """(cond term, true target, false target) for a block ending in a bool switch"""
        t = self.fn.blocks[blk]["term"]
        if t["t"] != "switch" or t["dty"].get("k") != "bool":
            return None
        c = self.operand(blk, None, t["discr"])
        f = None
        for v, tgt in t["arms"]:
            if v == 0:
                f = tgt
        if f is None:
            return None
        return c, t["otherwise"], f

    def try_ite(self, defs, terms, useblk):
        (b1, _, _), (b2, _, _) = [d if d != ("ENTRY",) else (0, 0, True) for d in defs]
        cfg = self.cfg
        if b1 != b2 and cfg.dominates(b2, b1):
            b1, b2 = b2, b1
            terms = [terms[1], terms[0]]
        if b1 == b2:
            return None
        if useblk is not None:
            # a definition that reaches the use only around a back edge is loop-carried, not a branch alternative
            for d_, bd in zip(defs, (b1, b2) if [d if d != ("ENTRY",) else (0, 0, True) for d in defs][0][0] == b1 else (b2, b1)):
                if bd != useblk and useblk not in self.fwd_reach(bd):
                    return None
                # a second reaching definition in the block of the use itself lies after the use (one before it would be the
                # only reaching definition): it arrives around the back edge (release builds: whole loop body in one block)
                if bd == useblk and d_ != ("ENTRY",):
                    return None

        def sides(d):
            bc = self.branch_cond(d)
            if bc is None:
                return None
            c, tt, ft = bc
            return c, cfg.reachable_from(tt, avoid=[d]), cfg.reachable_from(ft, avoid=[d])

        if cfg.dominates(b1, b2):
            # b1's value is overridden by b2 on one side of a branch d with b1 >= d > b2 in the dominator tree
            d = b2
            while True:
                nd = cfg.idom.get(d)
                if nd is None or nd == d:
                    return None
                d = nd
                sd = sides(d)
                if sd is not None:
                    c, r_t, r_f = sd
                    if (b2 in r_t) != (b2 in r_f):
                        break
                if d == b1:
                    return None
            if not (d == b1 or cfg.dominates(b1, d)):
                return None
            if useblk is not None and not cfg.dominates(d, useblk):
                return None
            if b2 in r_t:
                return ("ite", c, terms[1], terms[0])
            return ("ite", c, terms[0], terms[1])
        # diamond: nearest common dominator
        d = b1
        while True:
            nd = cfg.idom.get(d)
            if nd is None or nd == d:
                return None
            d = nd
            if cfg.dominates(d, b2):
                break
        sd = sides(d)
        if sd is None:
            return None
        c, r_t, r_f = sd
        if useblk is not None and not cfg.dominates(d, useblk):
            return None
        in_t1, in_f1 = b1 in r_t, b1 in r_f
        in_t2, in_f2 = b2 in r_t, b2 in r_f
        if in_t1 and not in_f1 and in_f2 and not in_t2:
            return ("ite", c, terms[0], terms[1])
        if in_f1 and not in_t1 and in_t2 and not in_f2:
            return ("ite", c, terms[1], terms[0])
        return None

    def try_ite_paths(self, defs, terms, useblk):
        """two definitions selected by a conjunction of tests (short-circuit `&&`, range patterns, match guards): the value is
        ite(c1 & .. & ck, t1, t2) when definition 1 is reached exactly under the conjunction and definition 2 under its negation
        (relative to what both paths share).  Verified by a truth table over the atoms involved."""
        if getattr(self, "_in_paths", False) or len(defs) != 2 or ("ENTRY",) in defs:
            return None
        (b1, _, _), (b2, _, _) = defs
        if b1 == b2:
            return None
        if useblk is not None:
            for d_, bd in zip(defs, (b1, b2) if [d if d != ("ENTRY",) else (0, 0, True) for d in defs][0][0] == b1 else (b2, b1)):
                if bd != useblk and useblk not in self.fwd_reach(bd):
                    return None
                # a second reaching definition in the block of the use itself lies after the use (one before it would be the
                # only reaching definition): it arrives around the back edge (release builds: whole loop body in one block)
                if bd == useblk and d_ != ("ENTRY",):
                    return None
            if self.cfg.dominates(b1, b2) or self.cfg.dominates(b2, b1):
                return None
        self._in_paths = True
        try:
            d1 = path_dnf(self, b1, max_paths=16)
            d2 = path_dnf(self, b2, max_paths=16)
        finally:
            self._in_paths = False
        if not d1 or not d2:
            return None
        common = frozenset.intersection(*(list(d1) + list(d2)))
        r1 = simplify_dnf([cj - common for cj in d1])
        r2 = simplify_dnf([cj - common for cj in d2])
        order = [(r1, r2, terms[0], terms[1]), (r2, r1, terms[1], terms[0])]
        for ra, rb, ta, tb_ in order:
            if len(ra) != 1 or not ra[0]:
                continue
            conj = sorted(ra[0], key=repr)
            atoms = sorted({c for c, v in conj} | {c for cj in rb for c, v in cj}, key=repr)
            if len(atoms) > 6 or any(c[0] in ("switch-other", "flagval") for c in atoms):
                continue
            import itertools
            ok = True
            for vals in itertools.product([False, True], repeat=len(atoms)):
                env = dict(zip(atoms, vals))
                va = all(env[c] == v for c, v in conj)
                vb = any(all(env[c] == v for c, v in cj) for cj in rb)
                if va == vb:
                    ok = False
                    break
            if not ok:
                continue
            cond = None
            for c, v in conj:
                x = c if v else ("un", "Not", c)
                cond = x if cond is None else ("op", "BitAnd", cond, x)
            return ("ite", cond, ta, tb_)
        return None

    def fwd_reach(self, a):
        """blocks reachable from a along forward edges only (back edges = edges to a dominator are not followed)"""
        memo = getattr(self, "_fwd", None)
        if memo is None:
            memo = self._fwd = {}
        if a in memo:
            return memo[a]
        cfg = self.cfg
        seen = {a}
        st = [a]
        while st:
            x = st.pop()
            for y in cfg.succ[x]:
                if y in seen or cfg.dominates(y, x):
                    continue
                seen.add(y)
                st.append(y)
        memo[a] = seen
        return seen

    # -- whole-function summaries ---------------------------------------------------
    def return_terms(self):
        """[(return block, term of _0)]"""
        out = []
        for b in self.cfg.exits():
            out.append((b, self.local(b, None, 0)))
        return out

    def return_term(self):
        rts = self.return_terms()
        if not rts:
            return ("never",)
        ts = list(dict.fromkeys(t for _, t in rts))
        if len(ts) == 1:
            return ts[0]
        if len(rts) == 2:
            ite = self.try_ite([(rts[0][0], 0, True), (rts[1][0], 0, True)], [rts[0][1], rts[1][1]], None)
            if ite:
                return ite
        return ("phi", tuple(sorted(ts, key=repr)))

    def path_conditions(self, blk):
        """[(cond term, truth)] for bool branches that dominate blk on a single edge"""
        out = []
        cfg = self.cfg
        d = blk
        while True:
            nd = cfg.idom.get(d)
            if nd is None or nd == d:
                break
            bc = self.branch_cond(nd)
            if bc is not None:
                c, tt, ft = bc
                r_t = cfg.reachable_from(tt, avoid=[nd])
                r_f = cfg.reachable_from(ft, avoid=[nd])
                if blk in r_t and blk not in r_f:
                    out.append((c, True))
                elif blk in r_f and blk not in r_t:
                    out.append((c, False))
            else:
                t = self.fn.blocks[nd]["term"]
                if t["t"] == "assert":
                    out.append((self.operand(nd, None, t["cond"]), t["expected"]))
            d = nd
        return out


def fmt(t, depth=0):
    _F = globals()["fmt"]
    """compact human-readable rendering"""
    k = t[0]
    if k == "param":
        return "p%d" % t[1]
    if k == "const":
        return str(t[1])
    if k == "item":
        return t[1].split("::")[-1]
    if k == "fn":
        return "fn:" + t[1].split("::")[-1]
    if k == "op":
        sym = {"Add": "+", "Sub": "-", "Mul": "*", "Div": "/", "Rem": "%", "BitXor": "^", "BitAnd": "&", "BitOr": "|",
               "Shl": "<<", "Shr": ">>", "Lt": "<", "Le": "<=", "Gt": ">", "Ge": ">=", "Eq": "==", "Ne": "!="}.get(t[1], t[1])
        return "(%s %s %s)" % (_F(t[2]), sym, _F(t[3]))
    if k == "un":
        return "%s(%s)" % (t[1], _F(t[2]))
    if k == "cast":
        return "(%s as %s)" % (_F(t[2]), t[1])
    if k == "field":
        return "%s.%s" % (_F(t[1]), t[2])
    if k == "deref":
        return "*%s" % _F(t[1])
    if k == "deref*":
        return "*%s" % _F(t[1])
    if k == "index":
        return "%s[%s]" % (_F(t[1]), _F(t[2]))
    if k == "variant":
        return "(%s as %s)" % (_F(t[1]), t[2])
    if k == "ref":
        return "&%s" % _F(t[1])
    if k == "len":
        return "len(%s)" % _F(t[1])
    if k == "agg":
        return "%s(%s)" % (t[1].split("::")[-1] if ":" in t[1] else t[1], ", ".join(_F(x) for x in t[2]))
    if k == "call":
        c = t[1] if isinstance(t[1], str) else "indirect"
        return "%s(%s)" % (c.split("::")[-1] if isinstance(c, str) else c, ", ".join(_F(x) for x in t[2]))
    if k == "ite":
        return "(%s ? %s : %s)" % (_F(t[1]), _F(t[2]), _F(t[3]))
    if k == "phi":
        return "phi(%s)" % ", ".join(_F(x) for x in t[1])
    if k == "mu":
        return "mu(_%d@bb%d)" % (t[1], t[2]) if len(t) > 2 else "mu"
    return str(t)


# ---------------------------------------------------------------------------
# pattern matching

class V:
    """capture variable; optional predicate"""
    def __init__(self, name, pred=None):
        self.name = name
        self.pred = pred

    def __repr__(self):
        return "?" + self.name


class Alt:
    def __init__(self, *alts):
        self.alts = alts


ANY = V("_")


def match(pat, t, env=None):
    """structural match; returns env (dict) or None.  Commutative operators try both orders."""
    env = dict(env or {})
    return _m(pat, t, env)


def _m(pat, t, env):
    if isinstance(pat, V):
        if pat.name == "_":
            return env
        if pat.pred is not None and not pat.pred(t):
            return None
        if pat.name in env:
            return env if env[pat.name] == t else None
        e = dict(env)
        e[pat.name] = t
        return e
    if isinstance(pat, Alt):
        for a in pat.alts:
            r = _m(a, t, env)
            if r is not None:
                return r
        return None
    if isinstance(pat, tuple):
        if not isinstance(t, tuple) or len(pat) != len(t):
            return None
        if pat and pat[0] == "op" and len(pat) == 4 and isinstance(pat[1], str) and pat[1] in COMMUTATIVE:
            if t[0] != "op" or t[1] != pat[1]:
                return None
            for a, b in ((t[2], t[3]), (t[3], t[2])):
                e = _m(pat[2], a, env)
                if e is not None:
                    e = _m(pat[3], b, e)
                    if e is not None:
                        return e
            return None
        for p, x in zip(pat, t):
            env = _m(p, x, env)
            if env is None:
                return None
        return env
    return env if pat == t else None


def subterms(t):
    yield t
    if isinstance(t, tuple):
        for x in t[1:]:
            if isinstance(x, tuple):
                if x and isinstance(x[0], str):
                    yield from subterms(x)
                else:
                    for y in x:
                        if isinstance(y, tuple):
                            yield from subterms(y)


def find(pat, t):
    for s in subterms(t):
        e = match(pat, s)
        if e is not None:
            return e, s
    return None


# ---------------------------------------------------------------------------
# path predicates (loop-free part), inlining, normalisation

def path_dnf(tb, target, max_paths=256, include_asserts=False):
    """Disjunction of conjunctions of (cond term, truth) under which control reaches block `target`
    from the entry, following forward edges only (back edges ignored).  Returns list of frozensets,
    or None when there are too many paths."""
    cfg = tb.cfg
    fn = tb.fn
    rpoi = {b: i for i, b in enumerate(cfg.rpo)}
    memo = {}
    # boolean temporaries that are only ever assigned the constants true/false (the result of `matches!`, `a && b`,
    # a match producing a bool): a branch on such a local is decided by which assignment the path went through
    flags = getattr(fn, "_const_bools", None)
    if flags is None:
        cand, bad_ = {}, set()
        for blk in fn.blocks:
            if blk["cleanup"]:
                continue
            for s_ in blk["stmts"]:
                if s_["s"] == "assign" and not s_["lhs"]["proj"]:
                    l_ = s_["lhs"]["l"]
                    rv = s_["rv"]
                    if rv["r"] == "use" and rv["a"].get("o") == "const" and isinstance(rv["a"].get("ty"), dict) and rv["a"]["ty"].get("k") == "bool":
                        cand.setdefault(l_, []).append(blk["i"])
                    else:
                        bad_.add(l_)
            tt = blk["term"]
            if tt["t"] == "call":
                bad_.add(tt["dest"]["l"])
        flags = {l_: bs for l_, bs in cand.items() if l_ not in bad_ and len(bs) >= 2 and l_ > fn.argc}
        fn._const_bools = flags

    def flag_assigns(p):
        """{flag local: bool} assigned in block p (last assignment wins)"""
        out = {}
        for s_ in fn.blocks[p]["stmts"]:
            if s_["s"] == "assign" and not s_["lhs"]["proj"] and s_["lhs"]["l"] in flags:
                out[s_["lhs"]["l"]] = bool(s_["rv"]["a"].get("v"))
        return out

    def flag_of_discr(p):
        """(flag local, negated?) when block p branches on a constant-assigned boolean (through copies / !)"""
        t = fn.blocks[p]["term"]
        o = t["discr"]
        neg = False
        for _ in range(6):
            if not (isinstance(o, dict) and o.get("o") in ("copy", "move") and not o["proj"]):
                return None
            l_ = o["l"]
            if l_ in flags and l_ not in flag_assigns(p):
                return l_, neg
            d = None
            for s_ in fn.blocks[p]["stmts"]:
                if s_["s"] == "assign" and s_["lhs"]["l"] == l_ and not s_["lhs"]["proj"]:
                    d = s_
            if d is None:
                return None
            if d["rv"]["r"] == "use":
                o = d["rv"]["a"]
            elif d["rv"]["r"] == "unop" and d["rv"]["op"] == "Not":
                o = d["rv"]["a"]
                neg = not neg
            else:
                return None
        return None

    def edge_conds(p, b):
        t = fn.blocks[p]["term"]
        if t["t"] == "switch":
            if t["dty"].get("k") == "bool" and flags:
                fd = flag_of_discr(p)
                if fd is not None:
                    f = [tgt for v, tgt in t["arms"] if v == 0]
                    ft = f[0] if f else None
                    truth = None
                    if b == t["otherwise"] and b != ft:
                        truth = True
                    elif b == ft and b != t["otherwise"]:
                        truth = False
                    if truth is None:
                        return []
                    return [(("flagval", fd[0]), truth != fd[1])]
            c = tb.operand(p, None, t["discr"])
            if t["dty"].get("k") == "bool":
                f = [tgt for v, tgt in t["arms"] if v == 0]
                ft = f[0] if f else None
                if b == t["otherwise"] and b != ft:
                    return [(c, True)]
                if b == ft and b != t["otherwise"]:
                    return [(c, False)]
                return []
            vals = [v for v, tgt in t["arms"] if tgt == b]
            if b == t["otherwise"]:
                return [(("switch-other", c, tuple(v for v, _ in t["arms"])), True)]
            return [(("op", "Eq", c, ("const", vals[0])), True)] if len(vals) == 1 else []
        if t["t"] == "assert" and include_asserts:
            # compiler-inserted checks (overflow, bounds, division by zero): not part of the program's own predicate
            return [(tb.operand(p, None, t["cond"]), t["expected"])]
        return []

    def rec(b):
        if b in memo:
            return memo[b]
        if b == 0:
            memo[b] = [frozenset()]
            return memo[b]
        out = []
        for p in cfg.pred[b]:
            if rpoi.get(p, 1 << 30) >= rpoi.get(b, -1):
                continue  # back edge
            ps = rec(p)
            if ps is None:
                memo[b] = None
                return None
            ec = edge_conds(p, b)
            fa = flag_assigns(p) if flags else {}
            for conj in ps:
                c2 = set(conj)
                bad = False
                for l_, val in fa.items():
                    c2 = {x for x in c2 if not (x[0][0] == "flagset" and x[0][1] == l_)}
                    c2.add((("flagset", l_, val), True))
                for (c, v) in ec:
                    if c[0] == "const":
                        # branch on a compile-time constant (cfg!(..)): the other edge is dead
                        if bool(c[1]) != v:
                            bad = True
                        continue
                    if c[0] == "flagval":
                        known = [x[0][2] for x in c2 if x[0][0] == "flagset" and x[0][1] == c[1]]
                        if known:
                            if known[0] != v:
                                bad = True
                            continue
                    if (c, not v) in c2:
                        bad = True
                    c2.add((c, v))
                if not bad:
                    out.append(frozenset(c2))
        out = simplify_dnf(out)
        if len(out) > max_paths:
            memo[b] = None
            return None
        memo[b] = out
        return out
    res = rec(target)
    if res is not None and flags:
        res = simplify_dnf([frozenset(x for x in cj if x[0][0] != "flagset") for cj in res])
    return res


def simplify_dnf(dnf):
    dnf = list(dict.fromkeys(dnf))
    changed = True
    while changed:
        changed = False
        n = len(dnf)
        for i in range(n):
            for j in range(i + 1, n):
                a, b = dnf[i], dnf[j]
                d = a ^ b
                if len(d) == 2:
                    (c1, v1), (c2, v2) = tuple(d)
                    if c1 == c2 and v1 != v2:
                        merged = a & b
                        dnf = [x for k, x in enumerate(dnf) if k not in (i, j)] + [merged]
                        changed = True
                        break
                if a <= b:
                    dnf = [x for k, x in enumerate(dnf) if k != j]
                    changed = True
                    break
                if b <= a:
                    dnf = [x for k, x in enumerate(dnf) if k != i]
                    changed = True
                    break
            if changed:
                break
    return dnf


def subst(t, env):
    """replace ("param", i) by env[i]"""
    if not isinstance(t, tuple):
        return t
    if t and t[0] == "param":
        return env.get(t[1], t)
    return tuple(subst(x, env) if isinstance(x, tuple) else x for x in t)


def map_term(t, f):
    """bottom-up rewrite"""
    if not isinstance(t, tuple):
        return t
    t2 = tuple(map_term(x, f) if isinstance(x, tuple) else x for x in t)
    if not t2 or not isinstance(t2[0], str):
        return t2          # plain argument list, not a term node
    return f(t2)


_ret_cache = {}


def callee_return(crate, path):
    key = (id(crate), path)
    if key not in _ret_cache:
        fn = crate.fns.get(path)
        if fn is None:
            _ret_cache[key] = None
        else:
            _ret_cache[key] = TermBuilder(fn).return_term()
    return _ret_cache[key]


def inline(t, crate, depth=3, only=None):
    """expand calls to crate-local functions by their return term (bounded depth)"""
    if depth <= 0:
        return t

    def f(x):
        if x[0] == "call" and isinstance(x[1], str) and x[1] in crate.fns and (only is None or only(x[1])):
            fn = crate.fns[x[1]]
            if fn.f["kind"] == "Closure":
                return x
            rt = callee_return(crate, x[1])
            if rt is None or rt[0] in ("never",):
                return x
            if any(s[0] == "mu" for s in subterms(rt)):
                return x
            env = {i + 1: a for i, a in enumerate(x[2])}
            return inline(subst(rt, env), crate, depth - 1, only)
        return x
    return map_term(t, f)


def strip_casts(t):
    def f(x):
        if x[0] == "cast":
            return x[2]
        return x
    return map_term(t, f)


def _is_mult(c):
    """(n, d) when c says 'n is a multiple of d' (is_multiple_of call, or n % d == 0)"""
    if c[0] == "call" and isinstance(c[1], str) and c[1].endswith("::is_multiple_of") and len(c[2]) == 2:
        return c[2]
    if c[0] == "op" and c[1] == "Eq":
        for a, b in ((c[2], c[3]), (c[3], c[2])):
            if b == ("const", 0) and a[0] == "op" and a[1] == "Rem":
                return (a[2], a[3])
    return None


def normalise(t):
    """canonical forms: ceil-division idioms, commutative sorting, comparison direction, and the unsigned-integer
    identities  x & (2^k - 1) = x % 2^k,  x.is_multiple_of(d) = (x % d == 0),  x - (x / d) * d = x % d"""
    def f(x):
        if x[0] == "ite" and x[1][0] == "un" and x[1][1] == "Not":
            return f(("ite", x[1][2], x[3], x[2]))
        if x[0] == "ite":
            c, a, b = x[1], x[2], x[3]
            # if n % d == 0 { n/d } else { n/d + 1 }
            if _is_mult(c) is not None:
                n, d = _is_mult(c)
                q = ("op", "Div", n, d)
                a0 = a[2] if a[0] == "cast" else a
                b0 = b[2] if b[0] == "cast" else b
                if a0 == q and b0 in (("op", "Add", ("const", 1), q), ("op", "Add", q, ("const", 1))):
                    r = ("ceildiv", n, d)
                    if a[0] == "cast" and b[0] == "cast" and a[1] == b[1]:
                        return ("cast", a[1], r)
                    return r
            return x
        if x[0] == "call" and isinstance(x[1], str) and x[1].endswith("::div_ceil") and len(x[2]) == 2:
            return ("ceildiv", x[2][0], x[2][1])
        if x[0] == "call" and isinstance(x[1], str) and x[1].endswith("::is_multiple_of") and len(x[2]) == 2:
            return f(("op", "Eq", ("const", 0), ("op", "Rem", x[2][0], x[2][1])))
        if x[0] == "op":
            op, a, b = x[1], x[2], x[3]
            if op == "Add" and a == ("const", 0):
                return b
            if op in ("Add", "Sub") and b == ("const", 0):
                return a
            if op == "Mul" and a == ("const", 1):
                return b
            if op == "Mul" and b == ("const", 1):
                return a
            if op == "BitAnd":
                for u, m in ((a, b), (b, a)):
                    if m[0] == "const" and isinstance(m[1], int) and m[1] > 0 and (m[1] & (m[1] + 1)) == 0:
                        return ("op", "Rem", u, ("const", m[1] + 1))
            if op == "Sub" and b[0] == "op" and b[1] == "Mul":
                for q, d in ((b[2], b[3]), (b[3], b[2])):
                    if q[0] == "op" and q[1] == "Div" and q[2] == a and q[3] == d:
                        return ("op", "Rem", a, d)
            if op in COMMUTATIVE and repr(b) < repr(a):
                return ("op", op, b, a)
            if op == "Gt":
                return f(("op", "Lt", b, a))
            if op == "Ge":
                return f(("op", "Le", b, a))
            # integer comparisons against a constant in one spelling:  x < c  ==  x <= c-1,   c < x  ==  c+1 <= x
            if op == "Lt" and b[0] == "const" and isinstance(b[1], int) and not isinstance(b[1], bool) and b[1] >= 1:
                return ("op", "Le", a, ("const", b[1] - 1))
            if op == "Lt" and a[0] == "const" and isinstance(a[1], int) and not isinstance(a[1], bool) and a[1] >= 0:
                return ("op", "Le", ("const", a[1] + 1), b)
        return x
    return map_term(t, f)


def canon_cond(c, v):
    """canonical (cond, truth): push negation into comparisons"""
    c = normalise(c)
    if c[0] == "un" and c[1] == "Not":
        return canon_cond(c[2], not v)
    if c[0] == "op" and not v:
        neg = {"Lt": ("Le", True), "Le": ("Lt", True), "Eq": ("Ne", False), "Ne": ("Eq", False)}
        if c[1] in neg:
            nop, swap = neg[c[1]]
            a, b = c[2], c[3]
            if swap:
                a, b = b, a
            return normalise(("op", nop, a, b)), True
    if c[0] == "op" and c[1] == "Ne" and v:
        return c, True
    return c, v


def simplify(t):
    """algebraic clean-up after inlining: &/* cancellation, projections of aggregates, constant folding"""
    def f(x):
        k = x[0]
        if k in ("deref", "deref*") and x[1][0] == "ref":
            return x[1][1]
        if k == "field":
            b, i = x[1], x[2]
            if b[0] == "agg" and isinstance(i, int) and i < len(b[2]):
                return b[2][i]
            if b[0] == "ite":
                return f(("ite", b[1], f(("field", b[2], i)), f(("field", b[3], i))))
        if k == "ite" and x[2] == x[3]:
            return x[2]
        if k == "op" and x[2][0] == "const" and x[3][0] == "const" and isinstance(x[2][1], int) and isinstance(x[3][1], int):
            a, b = x[2][1], x[3][1]
            try:
                v = {"Add": a + b, "Sub": a - b, "Mul": a * b, "Div": a // b if b else None, "Rem": a % b if b else None,
                     "Shl": a << b if 0 <= b < 128 else None, "Shr": a >> b if 0 <= b < 128 else None,
                     "BitAnd": a & b, "BitOr": a | b, "BitXor": a ^ b}.get(x[1])
            except Exception:
                v = None
            if v is not None:
                return ("const", v)
        return x
    return map_term(t, f)


def inline_closures(t, crate, depth=3):
    """expand calls of closures (Fn::call through the resolved closure body) with their environment"""
    if depth <= 0:
        return t

    def f(x):
        if x[0] == "call" and isinstance(x[1], str) and x[1] in crate.fns and crate.fns[x[1]].f["kind"] == "Closure" \
                and len(x[2]) == 2:
            env, args = x[2]
            rt = callee_return(crate, x[1])
            if rt is None:
                return x
            sub = {1: env}
            if args[0] == "agg":
                for i, a in enumerate(args[2]):
                    sub[i + 2] = a
            else:
                return x
            r = simplify(subst(rt, sub))
            return inline_closures(r, crate, depth - 1)
        return x
    return map_term(t, f)
