"""Compile-fail witnesses: type-level lemmas decided by rustc itself.

/verif/witness is a crate that depends on the current /repo tree by path; every doc-test is either a
`compile_fail,E0xxx` witness (the offending program must be rejected with exactly that error) or its compiling
twin (`no_run`: compiled, never executed) that differs by the offending line only.  rustdoc on the nightly
toolchain honours the error code.  Results are cached per source tree like the MIR facts."""
import json
import os
import re
import shutil
import subprocess
import tempfile

from . import mir

WIT = os.path.join(mir.VERIF, "witness")

# witness struct name -> (property rule it supports, statement)
WITNESSES = {
    "OtiFieldsPrivate": ("C19-R3", "the fields of an accepted ObjectTransmissionInformation cannot be written from outside the crate"),
    "OtiNoLiteral": ("C19-R3", "an ObjectTransmissionInformation cannot be built with a struct literal around the validating constructors"),
    "PayloadIdNoLiteral": ("C13-R3", "a PayloadId cannot be built with a struct literal around the 24-bit check"),
    "PayloadIdFieldsPrivate": ("C13-R3", "the ESI of a PayloadId cannot be overwritten after construction"),
    "SlabFieldsPrivate": ("C12-R4", "SymbolSlab's length bookkeeping cannot be desynchronised from outside the crate"),
    "SlabNoLiteral": ("C12-R4", "a SymbolSlab cannot be built with a struct literal around its constructors"),
}


def _src_hash():
    import hashlib
    h = hashlib.sha256()
    for p in ("Cargo.toml", "src/lib.rs"):
        with open(os.path.join(WIT, p), "rb") as fh:
            h.update(fh.read())
    return h.hexdigest()[:12]


def results(src=mir.REPO):
    """{witness: {"fail": bool|None, "twin": bool|None}}; raises RuntimeError when the doc-tests could not be built"""
    key = mir.tree_key(src)
    cache = os.path.join(mir.VERIF, ".cache", "witness_%s_%s.json" % (key, _src_hash()))
    if os.path.exists(cache):
        with open(cache) as fh:
            return json.load(fh)
    scr = tempfile.mkdtemp(prefix="rqwit.", dir="/var/tmp")
    try:
        shutil.copytree(WIT, os.path.join(scr, "w"), ignore=shutil.ignore_patterns("target", "Cargo.lock"))
        ct = os.path.join(scr, "w", "Cargo.toml")
        with open(ct) as fh:
            s = fh.read()
        with open(ct, "w") as fh:
            fh.write(s.replace('path = "/repo"', 'path = "%s"' % os.path.abspath(src)))
        if os.path.exists(os.path.join(src, "Cargo.lock")):
            shutil.copy(os.path.join(src, "Cargo.lock"), os.path.join(scr, "w", "Cargo.lock"))
        env = dict(os.environ, CARGO_NET_OFFLINE="true", CARGO_TARGET_DIR=os.path.join(scr, "target"))
        env.pop("RUSTFLAGS", None)
        r = subprocess.run(["cargo", "+nightly", "test", "--doc", "--offline"], cwd=os.path.join(scr, "w"), env=env,
                           stdout=subprocess.PIPE, stderr=subprocess.STDOUT, text=True)
        out = {}
        seen = 0
        for m in re.finditer(r"^test src/lib\.rs - (\w+) \(line \d+\) - (compile fail|compile) \.\.\. (\w+)", r.stdout, re.M):
            seen += 1
            d = out.setdefault(m.group(1), {"fail": None, "twin": None})
            d["fail" if m.group(2) == "compile fail" else "twin"] = (m.group(3) == "ok")
        if seen == 0:
            raise RuntimeError("witness doc-tests did not run:\n" + r.stdout[-1500:])
        os.makedirs(os.path.dirname(cache), exist_ok=True)
        with open(cache + ".tmp", "w") as fh:
            json.dump(out, fh)
        os.replace(cache + ".tmp", cache)
        return out
    finally:
        shutil.rmtree(scr, ignore_errors=True)


def run(rep, rule, cfg="witness"):
    """obligations for all witnesses that support `rule`"""
    try:
        res = results()
    except RuntimeError as e:
        rep.bad(rule, "witness", "witness-build", "-", "the witness crate could not be compiled against the current tree", {"log": str(e)[-600:]}, cfg)
        return
    n = 0
    for name, (r, what) in sorted(WITNESSES.items()):
        if r != rule:
            continue
        n += 1
        got = res.get(name, {"fail": None, "twin": None})
        rep.check(got["twin"] is True, rule, "witness::" + name, "twin-compiles", "witness/src/lib.rs",
                  "twin of the witness compiles (the witness names real items): %s" % name, None, cfg)
        rep.check(got["fail"] is True, rule, "witness::" + name, "rejected-by-rustc", "witness/src/lib.rs",
                  "rustc rejects the violating program with the expected error: %s" % what, None, cfg)
    rep.floor(rule, n, 1, "compile-fail witnesses for " + rule, cfg)
