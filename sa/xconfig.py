"""Cross-configuration comparison (C07-R1): code that is compiled in only one of two build
configurations is found exactly, by source span, and every such site must be harmless or one of
the reviewed debug/release twins."""
from . import mir, terms
from .terms import fmt, V, match


class NamedTB(terms.TermBuilder):
    """terms with field names instead of indices (indices shift when a cfg'd field exists in one build only)"""
    def place(self, blk, pos, p):
        t = self.local(blk, pos, p["l"])
        for e in p["proj"]:
            k = e["p"]
            if k == "deref":
                t = ("deref", t)
            elif k == "field":
                if e.get("name") is not None and e.get("adt"):
                    t = ("field", t, e["adt"].split("::")[-1] + "." + e["name"])
                else:
                    t = self.mk_field(t, e["i"])
            elif k == "index":
                t = ("index", t, self.local(blk, pos, e["l"]))
            elif k == "cindex":
                t = ("index", t, ("const", e["off"]))
            elif k == "downcast":
                t = ("variant", t, e["variant"])
            else:
                t = ("unk", k)
        return t


def canon(t):
    """forget configuration-specific identities: loop-carried markers, call-site tags, casts"""
    def f(x):
        if x[0] == "mu":
            return ("mu",)
        if x[0] == "at":
            return ("at",)
        if x[0] == "phi":
            u = tuple(sorted(set(x[1]), key=repr))
            return u[0] if len(u) == 1 else ("phi", u)
        return x
    return terms.normalise(terms.strip_casts(terms.simplify(terms.map_term(t, f))))


def span_key(node):
    sp = node.get("usp") or node["sp"]
    return (sp["file"], sp["l0"], sp["c0"], sp["l1"], sp["c1"])


def sites(crate, f):
    """{span: [(kind, callee|None, node, block)]} for calls and stores of the function"""
    out = {}
    for blk in f.blocks:
        if blk["cleanup"] or blk["i"] not in f.cfg.reach:
            continue
        for i, s in enumerate(blk["stmts"]):
            if s["s"] == "assign" and s["lhs"]["proj"]:
                out.setdefault(span_key(s), []).append(("store", None, s, blk["i"], i))
        t = blk["term"]
        if t["t"] == "call":
            callee = t.get("resolved") or t.get("callee") or "?"
            if callee.startswith("core::panicking") or callee.startswith("std::fmt") or callee.startswith("core::fmt"):
                continue
            out.setdefault(span_key(t), []).append(("call", callee, t, blk["i"], "T"))
    return out


def only_in(a_sites, b_sites):
    """sites whose source span occurs in a but not in b (nested macro expansions share the user span: compare by (span, callee))"""
    out = []
    bk = {}
    for sp, lst in b_sites.items():
        for x in lst:
            bk.setdefault((sp, x[0], x[1]), 0)
            bk[(sp, x[0], x[1])] += 1
    for sp, lst in a_sites.items():
        for x in lst:
            k = (sp, x[0], x[1])
            if bk.get(k, 0) > 0:
                bk[k] -= 1
            else:
                out.append((sp, x))
    return out


def mut_params(crate, callee, node=None):
    f = crate.fns.get(callee)
    if f is None and node is not None and node.get("trait") and node.get("callee_krate") == crate.d["crate"]:
        # unresolved method of a crate trait (generic receiver): take the signature from any impl
        meth = callee.split("::")[-1]
        tr = node["trait"]
        for k, g in crate.fns.items():
            if k.endswith("::" + meth) and (g.f.get("impl_trait") == tr or g.f.get("in_trait") == tr):
                f = g
                break
    if f is None:
        return None
    return [i for i, x in enumerate(f.f.get("inputs", [])) if x.get("k") == "ref" and x.get("mut")]


def is_fresh(t):
    """the borrowed value is a temporary (result of a call / aggregate), not a place reachable from the parameters"""
    while t[0] == "ref":
        t = t[1]
    return t[0] in ("call", "agg", "const", "repeat", "ite", "phi") and t[0] != "deref"


def root_field(t):
    """name of the struct field closest to the base of a place term (self.X.foo[..] -> X)"""
    name = None
    while isinstance(t, tuple) and t:
        if t[0] == "field":
            if isinstance(t[2], str):
                name = t[2]
            t = t[1]
        elif t[0] in ("ref", "deref", "deref*", "index", "variant"):
            t = t[1]
        elif t[0] == "call" and isinstance(t[1], str) and t[1].split("::")[-1] in (
                "index_mut", "index", "deref_mut", "deref", "get_mut", "as_mut", "iter_mut", "as_mut_slice") and t[2]:
            t = t[2][0]
        else:
            break
    return name


def adt_field_names(crate):
    out = set()
    for p, a in crate.adts.items():
        for v in a["variants"]:
            for fl in v["fields"]:
                out.add(p.split("::")[-1] + "." + fl["name"])
    return out
