"""Cross-configuration comparison (C07-R1): code that is compiled in only one of two build
configurations is found exactly, by source span, and every such site must be harmless or one of
the reviewed debug/release twins."""
from . import mir, terms
from .terms import fmt, V, match


class NamedTB(terms.TermBuilder):
    """terms with field names instead of indices (indices shift when a cfg'd field exists in one build only)"""
    def place(self, blk, pos, p):
        t = self.local(blk, pos, p["l"])
        for e in p["proj"]:
            k = e["p"]
            if k == "deref":
                t = ("deref", t)
            elif k == "field":
                if e.get("name") is not None and e.get("adt"):
                    t = ("field", t, e["adt"].split("::")[-1] + "." + e["name"])
                else:
                    t = self.mk_field(t, e["i"])
            elif k == "index":
                t = ("index", t, self.local(blk, pos, e["l"]))
            elif k == "cindex":
                t = ("index", t, ("const", e["off"]))
            elif k == "downcast":
                t = ("variant", t, e["variant"])
            else:
                t = ("unk", k)
        return t


def canon(t):
    """forget configuration-specific identities: loop-carried markers, call-site tags, casts"""
    def f(x):
        if x[0] == "mu":
            return ("mu",)
        if x[0] == "at":
            return ("at",)
        if x[0] == "phi":
            u = tuple(sorted(set(x[1]), key=repr))
            return u[0] if len(u) == 1 else ("phi", u)
        return x
    return terms.normalise(terms.strip_casts(terms.simplify(terms.map_term(t, f))))


def span_key(node):
    sp = node.get("usp") or node["sp"]
    return (sp["file"], sp["l0"], sp["c0"], sp["l1"], sp["c1"])


def sites(crate, f):
    """{span: [(kind, callee|None, node, block)]} for calls and stores of the function"""
    out = {}
    for blk in f.blocks:
        if blk["cleanup"] or blk["i"] not in f.cfg.reach:
            continue
        for i, s in enumerate(blk["stmts"]):
            if s["s"] == "assign" and s["lhs"]["proj"]:
                out.setdefault(span_key(s), []).append(("store", None, s, blk["i"], i))
        t = blk["term"]
        if t["t"] == "call":
            callee = t.get("resolved") or t.get("callee") or "?"
            if callee.startswith("core::panicking") or callee.startswith("std::fmt") or callee.startswith("core::fmt"):
                continue
            out.setdefault(span_key(t), []).append(("call", callee, t, blk["i"], "T"))
    return out


def only_in(a_sites, b_sites):
    """sites whose source span occurs in a but not in b (nested macro expansions share the user span: compare by (span, callee))"""
    out = []
    bk = {}
    for sp, lst in b_sites.items():
        for x in lst:
            bk.setdefault((sp, x[0], x[1]), 0)
            bk[(sp, x[0], x[1])] += 1
    for sp, lst in a_sites.items():
        for x in lst:
            k = (sp, x[0], x[1])
            if bk.get(k, 0) > 0:
                bk[k] -= 1
            else:
                out.append((sp, x))
    return out


def common(a_sites, b_sites):
    """pairs of sites with the same (span, kind, callee), paired in order"""
    out = []
    for sp, lst in a_sites.items():
        bl = b_sites.get(sp)
        if not bl:
            continue
        used = [False] * len(bl)
        for x in lst:
            for j, y in enumerate(bl):
                if not used[j] and y[0] == x[0] and y[1] == x[1]:
                    used[j] = True
                    out.append((sp, x, y))
                    break
    return out


def mut_params(crate, callee, node=None):
    f = crate.fns.get(callee)
    if f is None and node is not None and node.get("trait") and node.get("callee_krate") == crate.d["crate"]:
        # unresolved method of a crate trait (generic receiver): take the signature from any impl
        meth = callee.split("::")[-1]
        tr = node["trait"]
        for k, g in crate.fns.items():
            if k.endswith("::" + meth) and (g.f.get("impl_trait") == tr or g.f.get("in_trait") == tr):
                f = g
                break
    if f is None:
        return None
    return [i for i, x in enumerate(f.f.get("inputs", [])) if x.get("k") == "ref" and x.get("mut")]


def is_fresh(t):
    """the borrowed value is a temporary (result of a call / aggregate), not a place reachable from the parameters"""
    while t[0] == "ref":
        t = t[1]
    return t[0] in ("call", "agg", "const", "repeat", "ite", "phi") and t[0] != "deref"


def root_field(t):
    """name of the struct field closest to the base of a place term (self.X.foo[..] -> X)"""
    name = None
    while isinstance(t, tuple) and t:
        if t[0] == "field":
            if isinstance(t[2], str):
                name = t[2]
            t = t[1]
        elif t[0] in ("ref", "deref", "deref*", "index", "variant"):
            t = t[1]
        elif t[0] == "call" and isinstance(t[1], str) and t[1].split("::")[-1] in (
                "index_mut", "index", "deref_mut", "deref", "get_mut", "as_mut", "iter_mut", "as_mut_slice") and t[2]:
            t = t[2][0]
        else:
            break
    return name


def adt_field_names(crate):
    out = set()
    for p, a in crate.adts.items():
        for v in a["variants"]:
            for fl in v["fields"]:
                out.add(p.split("::")[-1] + "." + fl["name"])
    return out


# ---------------------------------------------------------------------------------------------
# backward data slices by source span (configuration-stable: the extra overflow-check statements of
# a debug build carry the span of the expression they belong to)
class SpanSlice:
    """flow-insensitive backward data slice of a local, as a set of (source span, what) elements.
    Debug-build lowering of checked arithmetic (T = OpWithOverflow(a, b); assert; X = move T.0) is
    folded into X = Op(a, b) so that the two builds give the same elements for the same source."""

    def __init__(self, f, skip_fields=()):
        self.f = f
        self.defs = {}      # local -> [(span, consts, fields, used locals)]
        checked = {}        # T -> (consts, fields, used)
        ndefs = {}
        blocks = [b for b in f.blocks if not b["cleanup"] and b["i"] in f.cfg.reach]
        for blk in blocks:
            for s in blk["stmts"]:
                if s.get("s") == "assign":
                    ndefs[s["lhs"]["l"]] = ndefs.get(s["lhs"]["l"], 0) + 1
            if blk["term"]["t"] == "call":
                ndefs[blk["term"]["dest"]["l"]] = ndefs.get(blk["term"]["dest"]["l"], 0) + 1

        def uses(places, ops):
            used, consts, fields = set(), set(), set()
            for p in places:
                used.add(p["l"])
                for e in p["proj"]:
                    if e.get("p") == "index":
                        used.add(e["l"])
                    if e.get("p") == "field" and e.get("name") is not None and e.get("adt"):
                        fields.add(e["adt"].split("::")[-1] + "." + e["name"])
            for o in ops:
                if isinstance(o, dict) and o.get("o") == "const":
                    consts.add(str(o.get("txt", o.get("v"))))
            return used, consts, fields

        for blk in blocks:
            for s in blk["stmts"]:
                if s.get("s") != "assign":
                    continue
                rv = s["rv"]
                ops = [rv.get("a"), rv.get("b")] + list(rv.get("ops", []))
                if rv["r"] == "aggregate" and rv.get("adt") and rv.get("fields"):
                    ops = [o for o, fl in zip(rv["ops"], rv["fields"]) if rv["adt"].split("::")[-1] + "." + fl not in skip_fields]
                places = [o for o in ops if isinstance(o, dict) and o.get("o") in ("copy", "move")]
                if "p" in rv:
                    places.append(rv["p"])
                lhs = s["lhs"]
                if lhs["proj"]:
                    places.append(lhs)      # partial update keeps the rest of the old value
                used, consts, fields = uses(places, ops)
                if rv["r"] == "binop" and rv["op"].endswith("WithOverflow") and not lhs["proj"] and ndefs.get(lhs["l"]) == 1:
                    checked[lhs["l"]] = (consts, fields, used)
                    continue
                self.defs.setdefault(lhs["l"], []).append([self._sp(s), consts, fields, used, rv])
            t = blk["term"]
            if t["t"] == "call":
                places = [a for a in t["args"] if a.get("o") != "const"]
                used, consts, fields = uses(places, t["args"])
                el = [self._sp(t), consts | {"call:" + (t.get("resolved") or t.get("callee") or "?")}, fields, used, None]
                self.defs.setdefault(t["dest"]["l"], []).append(el)
                for a in places:      # a callee may write through the &mut it receives
                    if str(a.get("ty", "")).startswith("&mut"):
                        self.defs.setdefault(a["l"], []).append(el)
        for l, lst in self.defs.items():
            for el in lst:
                rv = el[4]
                if rv is not None and rv["r"] == "use" and rv["a"].get("o") in ("move", "copy") and rv["a"]["l"] in checked \
                        and [e.get("p") for e in rv["a"]["proj"]] == ["field"] and rv["a"]["proj"][0].get("i") == 0:
                    c, fl, u = checked[rv["a"]["l"]]
                    el[1], el[2], el[3] = el[1] | c, el[2] | fl, (el[3] - {rv["a"]["l"]}) | u
        self.memo = {}

    @staticmethod
    def _sp(node):
        sp = node["sp"]
        return (sp["file"], sp["l0"], sp["c0"], sp["l1"], sp["c1"])

    def of_local(self, l):
        if l in self.memo:
            return self.memo[l]
        seen = set()
        out = set()
        todo = [l]
        while todo:
            x = todo.pop()
            if x in seen:
                continue
            seen.add(x)
            for sp, consts, fields, used, _ in self.defs.get(x, ()):
                out.add((sp, "def"))
                for c in consts:
                    out.add((sp, "const " + c))
                for fl in fields:
                    out.add(("field", fl))
                todo.extend(used)
            if 1 <= x <= self.f.argc:
                out.add(("param", x))
        r = frozenset(out)
        self.memo[l] = r
        return r

    def of_operand(self, o):
        if o.get("o") == "const":
            return frozenset([("const", str(o.get("txt", o.get("v"))))])
        r = set(self.of_local(o["l"]))
        for e in o["proj"]:
            if e.get("p") == "index":
                r |= self.of_local(e["l"])
            if e.get("p") == "field" and e.get("name") is not None and e.get("adt"):
                r.add(("field", e["adt"].split("::")[-1] + "." + e["name"]))
        return frozenset(r)

    def of_store(self, s):
        """what a store writes: the slice of everything its right-hand side reads"""
        lst = [el for el in self.defs.get(s["lhs"]["l"], ()) if el[0] == self._sp(s)]
        out = set()
        for sp, consts, fields, used, _ in lst:
            for c in consts:
                out.add(("const", c))
            for fl in fields:
                out.add(("field", fl))
            for u in used:
                out |= self.of_local(u)
        return frozenset(out)
