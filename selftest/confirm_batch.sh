#!/bin/bash
# usage: confirm_batch.sh <worktree> <i>:<seed-id>:<property> ...   (sequential, in the agent's worktree)
WT="$1"; shift
export CARGO_BUILD_JOBS=4
for spec in "$@"; do
  IFS=: read -r i id prop <<< "$spec"
  /verif/selftest/confirm_seed.sh "$WT" "$i" "$id" "$prop" | tr '\n' ' ' | cut -c1-400; echo
done
rm -rf "$WT/target"
