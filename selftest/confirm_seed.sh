#!/bin/bash
# usage: confirm_seed.sh <worktree> <i> <seed-id> <property>
# Confirms an agent-made change in its own worktree: builds, existing tests pass with it, demo fails with it and passes without.
WT="$1"; I="$2"; ID="$3"; PROP="$4"
OUT=/verif/seeded/$ID
mkdir -p "$OUT"
LOG="$OUT/confirm.log"
: > "$LOG"
cd "$WT" || exit 2
git checkout -q -- . ; rm -rf tests/demo_*.rs
export CARGO_NET_OFFLINE=true
cp "_out/patch_$I.diff" "$OUT/patch.diff"
for f in _out/demo_$I.*; do cp "$f" "$OUT/"; done
cp "_out/meta_$I.json" "$OUT/agent_meta.json" 2>/dev/null
run_demo() {
  if [ -f "_out/demo_$I.sh" ]; then bash "_out/demo_$I.sh" >>"$LOG" 2>&1; return $?; fi
  if [ -f "_out/demo_$I.rs" ] && grep -q "^use super::" "_out/demo_$I.rs"; then
    mod=$(grep -o ">> src/[a-z_]*\.rs" "_out/demo_$I.rs" | head -1 | sed 's/>> //')
    [ -n "$mod" ] || mod=src/octets.rs
    cp "$mod" /tmp/_seed_backup_$$.rs
    echo "#[cfg(all(test, feature = \"std\"))] #[path = \"../_out/demo_$I.rs\"] mod seeded_demo_$I;" >> "$mod"
    cargo test --offline --lib seeded_demo_$I >>"$LOG" 2>&1; rc=$?
    # remove the mount line again (keep a possibly applied patch)
    python3 - "$mod" <<'PY'
import sys
p=sys.argv[1]; s=open(p).read().splitlines(True)
s=[l for l in s if 'mod seeded_demo_' not in l]
open(p,'w').write(''.join(s))
PY
    rm -f /tmp/_seed_backup_$$.rs
    return $rc
  fi
  if [ -f "_out/demo_$I.rs" ]; then
    if grep -q "^// *RUN:" "_out/demo_$I.rs"; then cmd=$(grep "^// *RUN:" "_out/demo_$I.rs" | head -1 | sed 's/^\/\/ *RUN: *//'); bash -c "$cmd" >>"$LOG" 2>&1; return $?; fi
    mkdir -p tests; cp "_out/demo_$I.rs" tests/demo_$I.rs
    FEAT=""; grep -q "features benchmarking" "_out/demo_$I.rs" && FEAT="--features benchmarking"
    cargo test --offline $FEAT --test demo_$I >>"$LOG" 2>&1; rc=$?; rm -f tests/demo_$I.rs; rmdir tests 2>/dev/null; return $rc
  fi
  return 99
}
echo "## clean tree: demo" >>"$LOG"; run_demo; CLEAN=$?
git apply "_out/patch_$I.diff" || { echo "patch does not apply" >>"$LOG"; exit 2; }
echo "## patched: build" >>"$LOG"; cargo build --offline >>"$LOG" 2>&1; B1=$?
cargo build --offline --no-default-features >>"$LOG" 2>&1; B2=$?
echo "## patched: existing tests" >>"$LOG"; cargo test --offline --lib 2>&1 | grep -E "^test result|FAILED|panicked" >>"$LOG"; T=${PIPESTATUS[0]}
echo "## patched: demo" >>"$LOG"; run_demo; PATCHED=$?
git checkout -q -- . ; rm -rf tests/demo_*.rs
cat > "$OUT/meta.json" <<EOM
{"property": "$PROP", "seed": "$ID", "build_default_rc": $B1, "build_no_std_rc": $B2, "existing_tests_rc": $T,
 "demo_on_clean_rc": $CLEAN, "demo_with_patch_rc": $PATCHED,
 "confirmed": $( [ $B1 -eq 0 ] && [ $B2 -eq 0 ] && [ $T -eq 0 ] && [ $CLEAN -eq 0 ] && [ $PATCHED -ne 0 ] && echo true || echo false ),
 "what_was_run": "in the agent's scratch worktree: cargo build --offline (default and --no-default-features), cargo test --offline --lib with the patch, the demonstration with and without the patch"}
EOM
cat "$OUT/meta.json"
