#!/usr/bin/env python3
"""Developer tool: turns selftest/mutants.json entries into patch files (scratch dir) and runs them through par_run.py, i.e.
against scratch copies of /repo.  usage: mutants_par.py [-j N] [id-or-property ...]"""
import json, os, subprocess, sys, tempfile, shutil
HERE = os.path.dirname(os.path.abspath(__file__))
args = sys.argv[1:]
j = "6"
if args and args[0] == "-j":
    j = args[1]; args = args[2:]
only = set(args)
ms = json.load(open(os.path.join(HERE, "mutants.json")))
scr = tempfile.mkdtemp(prefix="mutpatch.", dir="/var/tmp")
jobs, exp = [], {}
try:
    for m in ms:
        if only and m["id"] not in only and not (set(m["props"]) & only):
            continue
        src = open(os.path.join("/repo", m["file"])).read()
        if src.count(m["old"]) != 1:
            print("SKIP %s: old text occurs %d times" % (m["id"], src.count(m["old"])))
            continue
        a = os.path.join(scr, "a", m["file"]); b = os.path.join(scr, "b", m["file"])
        os.makedirs(os.path.dirname(a), exist_ok=True); os.makedirs(os.path.dirname(b), exist_ok=True)
        open(a, "w").write(src); open(b, "w").write(src.replace(m["old"], m["new"]))
        d = subprocess.run(["diff", "-u", "a/" + m["file"], "b/" + m["file"]], cwd=scr, capture_output=True, text=True).stdout
        pf = os.path.join(scr, m["id"] + ".diff")
        open(pf, "w").write(d)
        jobs.append("%s:%s" % (pf, ",".join(m["props"])))
        exp[pf] = m.get("expect", "fire")
    r = subprocess.run([os.path.join(HERE, "par_run.py"), "-j", j] + jobs, capture_output=True, text=True)
    bad = 0
    for line in r.stdout.splitlines():
        pf = line.split("  ")[0]
        silent = line.rstrip().endswith("silent")
        ok = (exp.get(pf) == "silent") == silent and "rc=2" not in line
        if not ok:
            bad += 1
        print(("ok   " if ok else "UNEXPECTED ") + os.path.basename(pf) + " [" + exp.get(pf, "?") + "] " + line.split("  ", 1)[1][:200])
    print("%d mutants, %d unexpected" % (len(jobs), bad))
finally:
    shutil.rmtree(scr, ignore_errors=True)
