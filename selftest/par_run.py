#!/usr/bin/env python3
"""Developer tool (not a check): par_run.py [-j N] <patch>:<Cxx>[,<Cyy>...|ALL] ...
Each patch is applied to its own scratch copy of /repo (never to /repo itself); the named checks run against the copy
(VERIF_REPO) with their evidence redirected (VERIF_EVIDENCE_DIR).  Prints one line per patch: the checks that fired and the
first violation keys."""
import os, shutil, subprocess, sys, tempfile
from concurrent.futures import ThreadPoolExecutor
ALL = "C01 C02 C04 C05 C07 C08 C09 C10 C11 C12 C13 C14 C15 C17 C18 C19".split()
VERIF = os.path.dirname(os.path.dirname(os.path.abspath(__file__)))


def one(job):
    patch, props = job
    scr = tempfile.mkdtemp(prefix="parrun.", dir="/var/tmp")
    try:
        repo = os.path.join(scr, "repo")
        subprocess.run(["rsync", "-a", "--exclude", "target", "--exclude", ".git", "/repo/", repo + "/"], check=True)
        r = subprocess.run(["patch", "-p1", "-s", "-i", os.path.abspath(patch)], cwd=repo, capture_output=True, text=True)
        if r.returncode != 0:
            return patch, {"_": (2, ["patch does not apply: " + r.stdout[:200]])}
        env = dict(os.environ, VERIF_REPO=repo, VERIF_EVIDENCE_DIR=os.path.join(scr, "evidence"), VERIF_CACHE_KEEP="80")
        res = {}
        for p in props:
            r = subprocess.run(["./check", p, "quick"], cwd=VERIF, env=env, capture_output=True, text=True)
            keys = [l.strip()[len("violated: "):].split(" at ")[0] for l in r.stdout.splitlines() if l.strip().startswith("violated:")]
            if r.returncode not in (0, 1):
                keys = ["ERROR: " + (r.stdout + r.stderr)[-300:].replace("\n", " | ")]
            res[p] = (r.returncode, keys)
        return patch, res
    finally:
        shutil.rmtree(scr, ignore_errors=True)


def main():
    args = sys.argv[1:]
    j = 6
    if args and args[0] == "-j":
        j = int(args[1]); args = args[2:]
    jobs = []
    for a in args:
        patch, _, props = a.partition(":")
        jobs.append((patch, ALL if props in ("", "ALL") else props.split(",")))
    with ThreadPoolExecutor(j) as ex:
        for patch, res in ex.map(one, jobs):
            fired = {p: v for p, v in res.items() if v[0] != 0}
            print("%s  %s" % (patch, "silent" if not fired else "  ".join("%s rc=%d %s" % (p, v[0], v[1][:2]) for p, v in fired.items())), flush=True)


main()
