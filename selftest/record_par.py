#!/usr/bin/env python3
"""record_par.py [-j N] <seed-id>[:<Cxx>,<Cyy>] ...: like record_seed.py but on scratch copies of /repo (par_run.one); stores which
rule instances fired in seeded/<id>/meta.json ("caught_by", "detected")."""
import json, os, sys, importlib.util
from concurrent.futures import ThreadPoolExecutor
HERE = os.path.dirname(os.path.abspath(__file__))
spec = importlib.util.spec_from_file_location("par_run_lib", os.path.join(HERE, "par_run.py"))
src = open(os.path.join(HERE, "par_run.py")).read().replace("\nmain()\n", "\n")
ns = {"__file__": os.path.join(HERE, "par_run.py")}
exec(compile(src, "par_run.py", "exec"), ns)
args = sys.argv[1:]
j = 4
if args and args[0] == "-j":
    j = int(args[1]); args = args[2:]
jobs = []
for a in args:
    sid, _, props = a.partition(":")
    d = os.path.join(os.path.dirname(HERE), "seeded", sid)
    meta = json.load(open(d + "/meta.json"))
    jobs.append((d + "/patch.diff", props.split(",") if props else [meta["property"]]))
with ThreadPoolExecutor(j) as ex:
    for patch, res in ex.map(ns["one"], jobs):
        d = os.path.dirname(patch)
        meta = json.load(open(d + "/meta.json"))
        meta["caught_by"] = {p: {"rc": v[0], "violations": v[1][:8]} for p, v in res.items()}
        meta["detected"] = any(v[0] == 1 for v in res.values())
        json.dump(meta, open(d + "/meta.json", "w"), indent=1)
        print(os.path.basename(d), {p: (v[0], v[1][:2]) for p, v in res.items()}, flush=True)
