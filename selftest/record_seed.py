#!/usr/bin/env python3
"""record_seed.py <seed-id> <Cxx> [...]: runs the given checks against /repo with the seed's patch applied and
stores which rule instances fired in /verif/seeded/<id>/meta.json ("caught_by")."""
import json, os, subprocess, sys
sid = sys.argv[1]
props = sys.argv[2:]
d = "/verif/seeded/%s" % sid
meta = json.load(open(d + "/meta.json"))
assert subprocess.run("git -C /repo status --porcelain", shell=True, capture_output=True, text=True).stdout.strip() == ""
subprocess.run("git -C /repo apply %s/patch.diff" % d, shell=True, check=True)
import shutil, tempfile
keep = tempfile.mkdtemp(prefix="evid.")
shutil.copytree("/verif/evidence", keep + "/evidence")
caught = {}
try:
    for p in props:
        r = subprocess.run("cd /verif && ./check %s quick" % p, shell=True, capture_output=True, text=True)
        keys = [l.strip()[len("violated: "):].split(" at ")[0] for l in r.stdout.splitlines() if l.strip().startswith("violated:")]
        caught[p] = {"rc": r.returncode, "violations": keys[:8]}
finally:
    subprocess.run("git -C /repo checkout -- .", shell=True)
    shutil.rmtree("/verif/evidence", ignore_errors=True)
    shutil.copytree(keep + "/evidence", "/verif/evidence")
    shutil.rmtree(keep, ignore_errors=True)
meta["caught_by"] = caught
meta["detected"] = any(v["rc"] == 1 for v in caught.values())
json.dump(meta, open(d + "/meta.json", "w"), indent=1)
print(sid, {k: (v["rc"], v["violations"][:2]) for k, v in caught.items()})
