#!/bin/bash
# re-run every claimed check (quick) on the unchanged /repo tree so that the committed evidence is from a clean run
cd /verif
[ -z "$(git -C /repo status --porcelain)" ] || { echo "repo not clean"; exit 2; }
rc=0
for p in $(python3 -c "import json; print(' '.join(c['property_id'] for c in json.load(open('MANIFEST.json'))['checks']))"); do
  ./check $p quick > /tmp/refresh_$p.log 2>&1 || { echo "FAIL $p"; tail -5 /tmp/refresh_$p.log; rc=1; }
  head -1 /tmp/refresh_$p.log
done
python3-vt - <<'PY'
import json, jsonschema, glob
sch = json.load(open('/root/.vp/EVIDENCE.schema.json'))
for f in sorted(glob.glob('/verif/evidence/C*.json')):
    e = json.load(open(f)); jsonschema.validate(e, sch)
    c = e['coverage']
    assert c['obligations'] == c['discharged'], (f, c['obligations'], c['discharged'])
jsonschema.validate(json.load(open('/verif/MANIFEST.json')), json.load(open('/root/.vp/MANIFEST.schema.json')))
print("evidence + manifest valid")
PY
rm -rf /verif/evidence/replay
exit $rc
