#!/usr/bin/env python3
"""Developer tool (not a check): applies each textual mutant to /repo's working tree, runs the named
property checks, restores the tree.  mutants.json entries:
  {"id":..., "file":..., "old":..., "new":..., "props":[...], "expect":"fire"|"silent", "note":...}
"""
import json, os, subprocess, sys
HERE = os.path.dirname(os.path.abspath(__file__))
VERIF = os.path.dirname(HERE)
REPO = "/repo"


def sh(cmd, **kw):
    return subprocess.run(cmd, shell=True, stdout=subprocess.PIPE, stderr=subprocess.STDOUT, text=True, **kw)


def main():
    ms = json.load(open(os.path.join(HERE, "mutants.json")))
    only = set(sys.argv[1:])
    assert sh("git -C %s status --porcelain" % REPO).stdout.strip() == "", "repo not clean"
    results = []
    import shutil, tempfile
    keep = tempfile.mkdtemp(prefix="evid.")
    shutil.copytree(os.path.join(VERIF, "evidence"), os.path.join(keep, "evidence"))
    try:
        _run(ms, only, results)
    finally:
        shutil.rmtree(os.path.join(VERIF, "evidence"), ignore_errors=True)
        shutil.copytree(os.path.join(keep, "evidence"), os.path.join(VERIF, "evidence"))
        shutil.rmtree(keep, ignore_errors=True)
    bad = [r for r in results if r[1] is False]
    print("%d results, %d unexpected" % (len(results), len(bad)))


def _run(ms, only, results):
    for m in ms:
        if only and m["id"] not in only and not (set(m["props"]) & only):
            continue
        path = os.path.join(REPO, m["file"])
        src = open(path).read()
        if src.count(m["old"]) != 1:
            print("%-28s SKIP: pattern occurs %d times" % (m["id"], src.count(m["old"])))
            results.append((m["id"], "skip"))
            continue
        open(path, "w").write(src.replace(m["old"], m["new"]))
        try:
            for p in m["props"]:
                r = sh("cd %s && ./check %s quick" % (VERIF, p))
                fired = "VIOLATION property=%s" % p in r.stdout
                err = r.returncode not in (0, 1)
                want = m.get("expect", "fire")
                ok = (fired and want == "fire") or (not fired and not err and want == "silent")
                keys = [l.strip() for l in r.stdout.splitlines() if l.strip().startswith("violated:")]
                print("%-28s %-4s %-6s rc=%d %s %s" % (m["id"], p, "OK" if ok else "MISS" if want == "fire" else "FALSE-ALARM",
                                                       r.returncode, "ERR" if err else "", keys[:2]))
                if err:
                    print(r.stdout[-1500:])
                results.append((m["id"], ok))
        finally:
            sh("git -C %s checkout -- ." % REPO)


if __name__ == "__main__":
    main()
