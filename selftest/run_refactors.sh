#!/bin/bash
# Developer tool (not a check): every behaviour-preserving patch under selftest/refactors*/ must leave all 16 checks silent.
ALL="C01 C02 C04 C05 C07 C08 C09 C10 C11 C12 C13 C14 C15 C17 C18 C19"
bad=0
for d in /verif/selftest/refactors /verif/selftest/refactors2 /verif/selftest/refactors3 /verif/selftest/refactors4 /verif/selftest/refactors5 /verif/selftest/refactors6; do
  for p in $(ls $d/patch_*.diff | sort -V); do
    out=$(/verif/selftest/try_patch.sh $p $ALL 2>&1 | grep -v WARN | grep -v "rc=0")
    if [ -n "$out" ]; then echo "--- $p"; echo "$out" | cut -c1-300; bad=$((bad+1)); fi
  done
done
echo "refactors with alarms: $bad"
