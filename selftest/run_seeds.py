#!/usr/bin/env python3
"""Developer tool (not a check): re-applies every recorded sub-agent change (seeded/<id>/patch.diff) to /repo, runs the check of
the property it was aimed at, and restores the tree.  Every change must still be reported (exit 1 + VIOLATION line)."""
import json, os, subprocess, sys, shutil, tempfile
VERIF = os.path.dirname(os.path.dirname(os.path.abspath(__file__)))
only = set(sys.argv[1:])
assert subprocess.run("git -C /repo status --porcelain", shell=True, capture_output=True, text=True).stdout.strip() == "", "repo not clean"
keep = tempfile.mkdtemp(prefix="evid.")
shutil.copytree(VERIF + "/evidence", keep + "/evidence")
missed = []
try:
    for sid in sorted(os.listdir(VERIF + "/seeded")):
        d = os.path.join(VERIF, "seeded", sid)
        if not os.path.exists(d + "/meta.json") or (only and sid not in only and sid.split("-")[0] not in only):
            continue
        meta = json.load(open(d + "/meta.json"))
        prop = meta["property"]
        expect = meta.get("detected", True)
        subprocess.run("git -C /repo apply %s/patch.diff" % d, shell=True, check=True)
        try:
            r = subprocess.run("cd %s && ./check %s quick" % (VERIF, prop), shell=True, capture_output=True, text=True)
        finally:
            subprocess.run("git -C /repo checkout -- .", shell=True)
        fired = ("VIOLATION property=%s" % prop) in r.stdout and r.returncode == 1
        keys = [l.strip()[10:].split(" at ")[0] for l in r.stdout.splitlines() if l.strip().startswith("violated:")]
        print("%-14s %-4s %s %s" % (sid, prop, "detected" if fired else ("not detected (recorded as a known miss)" if not expect else "MISSED"), keys[:2]))
        if not fired and expect:
            missed.append(sid)
finally:
    shutil.rmtree(VERIF + "/evidence", ignore_errors=True)
    shutil.copytree(keep + "/evidence", VERIF + "/evidence")
    shutil.rmtree(keep, ignore_errors=True)
print("missed:", missed)
