#!/usr/bin/env python3
"""Regenerates the seed table of DESIGN.md (between the SEEDS markers) from seeded/*/meta.json and agent_meta.json."""
import json, os, re
V = os.path.dirname(os.path.dirname(os.path.abspath(__file__)))
rows = []
for sid in sorted(os.listdir(V + "/seeded"), key=lambda s: (s.split("-")[0], int(s.split("-")[-1]))):
    d = os.path.join(V, "seeded", sid)
    if not os.path.exists(d + "/meta.json"):
        continue
    m = json.load(open(d + "/meta.json"))
    am = {}
    if os.path.exists(d + "/agent_meta.json"):
        try:
            am = json.load(open(d + "/agent_meta.json"))
        except Exception:
            am = {}
    summ = (am.get("summary") or m.get("summary") or "").replace("|", "/").replace("\n", " ")
    summ = re.sub(r"\s+", " ", summ)
    if len(summ) > 170:
        summ = summ[:167] + "..."
    keys = []
    for p, v in (m.get("caught_by") or {}).items():
        for k in v.get("violations", [])[:2]:
            parts = k.split("|")
            keys.append("%s %s" % (parts[0], parts[2] if len(parts) > 2 else ""))
    det = "; ".join(dict.fromkeys(keys)) if m.get("detected") else "**not detected** (see 10.6, 10.7)"
    rows.append("| %s | %s | %s | %s |" % (sid, m["property"], summ, det.replace("|", "/")[:160]))
table = "| seed | property | change (author's summary) | detected by |\n|---|---|---|---|\n" + "\n".join(rows)
p = V + "/DESIGN.md"
s = open(p).read()
a, b = "<!-- SEEDS-BEGIN -->", "<!-- SEEDS-END -->"
if a in s and b in s:
    s = s[:s.index(a) + len(a)] + "\n" + table + "\n" + s[s.index(b):]
    open(p, "w").write(s)
    print("table written: %d seeds" % len(rows))
else:
    print(table)
