#!/bin/bash
# usage: try_patch.sh <patch.diff> <Cxx> [Cyy ...]   — applies the patch to /repo, runs the checks, restores /repo
set -u
PATCH="$1"; shift
cd /repo || exit 2
[ -z "$(git status --porcelain)" ] || { echo "repo not clean"; exit 2; }
git apply "$PATCH" || { echo "patch does not apply"; exit 2; }
KEEP=$(mktemp -d /var/tmp/evid.XXXXXX); cp -r /verif/evidence "$KEEP/"
trap 'git -C /repo checkout -- . ; git -C /repo clean -fdq -- src tests examples 2>/dev/null; rm -rf /verif/evidence; cp -r "$KEEP/evidence" /verif/evidence; rm -rf "$KEEP"' EXIT
cd /verif
for p in "$@"; do
  out=$(./check "$p" quick 2>&1); rc=$?
  echo "== $p rc=$rc"
  echo "$out" | grep -E "violated:|ERROR" | cut -c1-260 | head -6
done
