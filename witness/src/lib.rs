//! Compile-fail witnesses (type-level lemmas used by C12-R4, C13-R3, C19-R3) with their compiling twins.
//! Run with `cargo +nightly test --doc --offline` (error codes are only honoured on nightly).
//! Each witness differs from its twin by the offending line only, so a witness that merely names a
//! wrong path cannot pass.

/// An accepted configuration cannot be altered: the fields are private (C19-R3).
/// ```compile_fail,E0616
/// let c = raptorq::ObjectTransmissionInformation::new(1000, 100, 1, 1, 1);
/// let _t = c.symbol_size;            // private field
/// ```
/// ```no_run
/// let c = raptorq::ObjectTransmissionInformation::new(1000, 100, 1, 1, 1);
/// let _t = c.symbol_size();          // accessor
/// ```
pub struct OtiFieldsPrivate;

/// A configuration cannot be built around the validating constructor with a struct literal (C19-R1).
/// ```compile_fail,E0451
/// let _c = raptorq::ObjectTransmissionInformation {
///     transfer_length: 1 << 45, symbol_size: 1, num_source_blocks: 1, num_sub_blocks: 1, symbol_alignment: 1,
/// };
/// ```
/// ```no_run
/// let _c = raptorq::ObjectTransmissionInformation::new(1000, 1, 1, 1, 1);
/// ```
pub struct OtiNoLiteral;

/// A payload id with an ESI of more than 24 bits cannot be built with a literal (C13-R3).
/// ```compile_fail,E0451
/// let _p = raptorq::PayloadId { source_block_number: 0, encoding_symbol_id: 1 << 30 };
/// ```
/// ```no_run
/// let _p = raptorq::PayloadId::new(0, 5);
/// ```
pub struct PayloadIdNoLiteral;

/// The ESI of a payload id cannot be changed after construction (C13-R3).
/// ```compile_fail,E0616
/// let mut p = raptorq::PayloadId::new(0, 5);
/// p.encoding_symbol_id = 1 << 30;
/// ```
/// ```no_run
/// let p = raptorq::PayloadId::new(0, 5);
/// let _e = p.encoding_symbol_id();
/// ```
pub struct PayloadIdFieldsPrivate;

/// The slab's length bookkeeping cannot be desynchronised from outside: the fields are private even where the
/// type itself is exported (`benchmarking`) (C12-R4).
/// ```compile_fail,E0616
/// let mut s = raptorq::SymbolSlab::with_zeros(4, 16);
/// s.symbol_size = 1 << 20;          // private field
/// ```
/// ```no_run
/// let s = raptorq::SymbolSlab::with_zeros(4, 16);
/// let _n = s.len();
/// ```
pub struct SlabFieldsPrivate;

/// A slab cannot be built around the constructors with a struct literal (C12-R4).
/// ```compile_fail,E0451
/// let _s = raptorq::SymbolSlab { data: vec![0u8; 3], count: 4, symbol_size: 1 << 20, mapping: None };
/// ```
/// ```no_run
/// let _s = raptorq::SymbolSlab::with_zeros(4, 16);
/// ```
pub struct SlabNoLiteral;
